#!/usr/bin/env python3
"""Confirm a sub-agent's seeded change in its scratch worktree /tmp/mut_<ID>:
 1. patch.diff applies to a clean HEAD checkout (checked with git apply --check after reverting),
 2. the existing test suite passes with the change,
 3. the demonstration fails with the change and passes without it.
Then copy patch, demonstration and meta.json to /verif/seeded/<ID>/."""
import json, os, shutil, subprocess, sys

def sh(cmd, cwd, timeout=3000):
    p = subprocess.run(cmd, shell=True, cwd=cwd, stdout=subprocess.PIPE, stderr=subprocess.STDOUT, text=True, timeout=timeout)
    return p.returncode, p.stdout

def main(pid, demo_override=None, prefix="mut_", suffix=""):
    wt = f"/tmp/{prefix}{pid}"
    mut = f"{wt}/MUTANT"
    meta = json.load(open(f"{mut}/meta.json"))
    demo = demo_override or meta["demo_command"]
    demo = demo.replace("&amp;", "&")
    res = {}
    # clean tree, then apply the patch freshly
    sh("git checkout -- . && git clean -fdq -e MUTANT -e PROPERTY.txt -e target", wt)
    rc, out = sh(f"git apply --check {mut}/patch.diff", wt)
    res["patch_applies_on_clean_head"] = rc == 0
    if rc != 0:
        print(out[-800:])
        return res
    # demo WITHOUT the change
    rc, out = sh(demo, wt)
    res["demo_passes_without_change"] = rc == 0
    if rc != 0:
        print("demo without change failed:\n", out[-1500:])
    sh("git checkout -- . && git clean -fdq -e MUTANT -e PROPERTY.txt -e target", wt)
    sh(f"git apply {mut}/patch.diff", wt)
    rc, out = sh("cargo test --workspace --offline 2>&1 | grep -E '^test result|FAILED|error' ", wt)
    res["tests_pass_with_change"] = ("FAILED" not in out) and ("error" not in out) and ("test result: ok. 74 passed" in out)
    if not res["tests_pass_with_change"]:
        print(out[-1500:])
    rc, out = sh(demo, wt)
    res["demo_fails_with_change"] = rc != 0
    tail = "\n".join(out.splitlines()[-12:])
    # leave: patch applied, demo files removed
    sh("git checkout -- . && git clean -fdq -e MUTANT -e PROPERTY.txt -e target", wt)
    sh(f"git apply {mut}/patch.diff", wt)
    ok = all(res.values())
    print(pid, res)
    if ok:
        dst = f"/verif/seeded/{pid}{suffix}"
        os.makedirs(dst, exist_ok=True)
        for f in os.listdir(mut):
            shutil.copy(f"{mut}/{f}", dst)
        meta["confirmed_by_main_session"] = dict(res, demo_command_used=demo, demo_failure_tail=tail[-600:])
        json.dump(meta, open(f"{dst}/meta.json", "w"), indent=1)
    return res

if __name__ == "__main__":
    import argparse
    ap = argparse.ArgumentParser()
    ap.add_argument("pid")
    ap.add_argument("--demo")
    ap.add_argument("--prefix", default="mut_")
    ap.add_argument("--suffix", default="")
    a = ap.parse_args()
    main(a.pid, a.demo, a.prefix, a.suffix)
