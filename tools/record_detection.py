#!/usr/bin/env python3
"""Apply /verif/seeded/<ID>/patch.diff to /repo, run the quick check(s), undo the change, and record
what the checks reported in /verif/seeded/<ID>/meta.json (key `detection`)."""
import json, os, signal, subprocess, sys

def _restore(signum, frame):
    # a seeded change must never outlive this tool in /repo's working tree (it did once: 993a925)
    subprocess.run("git checkout -- .", shell=True, cwd="/repo")
    os._exit(128 + signum)

def main(sid, checks):
    d = f"/verif/seeded/{sid}"
    if subprocess.run("git status --porcelain --untracked-files=no", shell=True, cwd="/repo", capture_output=True, text=True).stdout.strip():
        print("/repo not clean"); return 1
    if subprocess.run(["git", "apply", f"{d}/patch.diff"], cwd="/repo").returncode != 0:
        print("patch does not apply"); return 1
    det = {}
    for s in (signal.SIGTERM, signal.SIGINT, signal.SIGHUP):
        signal.signal(s, _restore)
    try:
        for c in checks:
            env = dict(os.environ, VERIF_SEED=os.environ.get("VERIF_SEED", "1"))
            p = subprocess.run(["./check", c], cwd="/verif", capture_output=True, text=True, env=env)
            ev = json.load(open(f"/verif/evidence/{c}.json"))
            det[c] = dict(exit=p.returncode, tier="quick", seed=int(env["VERIF_SEED"]), violation_signatures=ev["coverage"].get("violation_signatures", []), wall_s=ev["wall_s"])
            print(sid, c, "exit", p.returncode, det[c]["violation_signatures"][:4])
    finally:
        subprocess.run("git checkout -- .", shell=True, cwd="/repo")
    meta = json.load(open(f"{d}/meta.json"))
    meta.setdefault("detection", {}).update(det)
    meta["what_was_run"] = "git -C /repo apply seeded/<id>/patch.diff; ./check <ID> (quick tier); git -C /repo checkout -- .  (tools/record_detection.py); the seeded change was confirmed beforehand with tools/verify_seeded.py (existing suite green with the change, demonstration fails with it and passes without it)"
    json.dump(meta, open(f"{d}/meta.json", "w"), indent=1)
    return 0

if __name__ == "__main__":
    sys.exit(main(sys.argv[1], sys.argv[2:]))  # <seeded dir name> <check id>...
