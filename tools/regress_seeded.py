#!/usr/bin/env python3
"""Re-run every seeded change against the quick tier of its property's check at the given seeds
(without touching the stored detection records). Usage: regress_seeded.py SEED [SEED...]"""
import glob, json, os, signal, subprocess, sys
seeds = sys.argv[1:] or ["2"]
if subprocess.run("git status --porcelain --untracked-files=no", shell=True, cwd="/repo", capture_output=True, text=True).stdout.strip():
    sys.exit("/repo not clean")
def _restore(signum, frame):
    # a seeded change must never outlive this tool in /repo's working tree (it did once: 993a925)
    subprocess.run(["git", "-C", "/repo", "checkout", "--", "."])
    os._exit(128 + signum)
for _s in (signal.SIGTERM, signal.SIGINT, signal.SIGHUP):
    signal.signal(_s, _restore)
missed = []
for d in sorted(glob.glob('/verif/seeded/*/')):
    sid = os.path.basename(d[:-1])
    prop = json.load(open(d + 'meta.json'))['property']
    for seed in seeds:
        subprocess.run(["git", "-C", "/repo", "apply", d + "patch.diff"], check=True)
        try:
            p = subprocess.run(["./check", prop], cwd="/verif", env=dict(os.environ, VERIF_SEED=seed), stdout=subprocess.PIPE, stderr=subprocess.STDOUT, text=True)
        finally:
            subprocess.run(["git", "-C", "/repo", "checkout", "--", "."], check=True)
        sigs = [l.split("signature:")[1].strip() for l in p.stdout.splitlines() if "signature:" in l]
        print(sid, prop, "seed", seed, "exit", p.returncode, sigs[:2], flush=True)
        if p.returncode != 1:
            missed.append((sid, seed, p.returncode))
print("MISSED:", missed)
