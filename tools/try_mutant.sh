#!/bin/bash
# usage: tools/try_mutant.sh <patch.diff> <check id>...
# applies a seeded change to /repo, runs the given checks (quick tier), reverts the change.
set -u
patch="$(realpath "$1")"; shift
cd /repo || exit 3
if [ -n "$(git status --porcelain --untracked-files=no)" ]; then echo "/repo not clean"; exit 3; fi
trap 'git -C /repo checkout -- .' EXIT TERM INT HUP
git apply "$patch" || { echo "patch does not apply"; exit 3; }
cd /verif
for id in "$@"; do
  out=$(VERIF_SEED=${VERIF_SEED:-1} ./check "$id" 2>/dev/null)
  rc=$?
  echo "== $id exit=$rc"
  echo "$out" | grep -E "^VIOLATION|signature:|what:|^KNOWN|INCONCLUSIVE" | head -8 | cut -c1-260
done
git -C /repo checkout -- .
