#!/bin/bash
# usage: tools/round_j.sh <ID>   (round 10: worktree /tmp/mutj_<ID> -> seeded/<ID>j, then detection record)
set -u
id="$1"
python3 /verif/tools/verify_seeded.py "$id" --prefix mutj_ --suffix j || exit 1
[ -f /verif/seeded/${id}j/patch.diff ] || { echo "not taken in"; exit 1; }
python3 /verif/tools/record_detection.py "${id}j" "$id"
