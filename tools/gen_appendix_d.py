#!/usr/bin/env python3
"""Print the DESIGN.md Appendix D table from /verif/seeded/*/meta.json (detection records)."""
import json, glob, os
rows = []
for d in sorted(glob.glob('/verif/seeded/*/')):
    sid = os.path.basename(d[:-1])
    m = json.load(open(d + 'meta.json'))
    det = m.get('detection', {})
    files = ', '.join(os.path.basename(f) for f in m.get('files_changed', []))
    caught = []
    for chk, r in sorted(det.items()):
        if r.get('exit') == 1:
            sigs = r.get('violation_signatures', [])
            caught.append(f"{chk}: `{sigs[0]}`" + (f" (+{len(sigs)-1})" if len(sigs) > 1 else ''))
        else:
            caught.append(f"{chk}: not caught (exit {r.get('exit')})")
    note = 'strengthened first' if m.get('initially_missed_by_quick_check') else ''
    rows.append((sid, files, '; '.join(caught), note))
print('| seeded change | file | quick check (seed 1) that reports it, first signature | note |')
print('|---|---|---|---|')
for r in rows:
    print('| ' + ' | '.join(r) + ' |')
