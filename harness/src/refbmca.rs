//! Independent reference implementation of the IEEE 1588-2019 best master clock algorithm:
//! data set comparison (Figures 34/35), state decision (Figure 33) and the data set updates of
//! tables 30-33, over plain tuples, plus statime's documented deviations. No code shared with
//! `statime::bmc`.

#[derive(Clone, Copy, Debug, PartialEq, Eq, Hash)]
pub struct Own {
    pub id: [u8; 8],
    pub p1: u8,
    pub class: u8,
    pub acc: u8,
    pub var: u16,
    pub p2: u8,
    pub slave_only: bool,
}

/// what an Announce says (the part the BMCA looks at) + who sent it
#[derive(Clone, Copy, Debug, PartialEq, Eq, Hash)]
pub struct Ann {
    pub gm_id: [u8; 8],
    pub p1: u8,
    pub class: u8,
    pub acc: u8,
    pub var: u16,
    pub p2: u8,
    pub steps: u16,
    pub sender: ([u8; 8], u16),
    // time properties carried (not compared)
    pub utc: i16,
    pub flags1: u8,
    pub time_source: u8,
}

#[derive(Clone, Copy, Debug, PartialEq, Eq)]
pub enum Ord6 {
    ABetter,
    ABetterByTopology,
    Error1,
    Error2,
    BBetterByTopology,
    BBetter,
}

#[derive(Clone, Copy, Debug)]
pub struct CmpSet {
    pub gm_id: [u8; 8],
    pub p1: u8,
    pub class: u8,
    pub acc: u8,
    pub var: u16,
    pub p2: u8,
    pub steps: u16,
    pub sender: [u8; 8],
    pub receiver: ([u8; 8], u16),
}

impl CmpSet {
    pub fn of_ann(a: &Ann, receiver: ([u8; 8], u16)) -> CmpSet {
        CmpSet { gm_id: a.gm_id, p1: a.p1, class: a.class, acc: a.acc, var: a.var, p2: a.p2, steps: a.steps, sender: a.sender.0, receiver }
    }
    pub fn of_own(o: &Own) -> CmpSet {
        CmpSet { gm_id: o.id, p1: o.p1, class: o.class, acc: o.acc, var: o.var, p2: o.p2, steps: 0, sender: o.id, receiver: (o.id, 0) }
    }
}

/// Figures 34 and 35
pub fn compare(a: &CmpSet, b: &CmpSet) -> Ord6 {
    if a.gm_id != b.gm_id {
        // Figure 34: lower value wins at each stage
        let ka = (a.p1, a.class, a.acc, a.var, a.p2, a.gm_id);
        let kb = (b.p1, b.class, b.acc, b.var, b.p2, b.gm_id);
        return if ka < kb { Ord6::ABetter } else { Ord6::BBetter };
    }
    // Figure 35
    let sa = a.steps as i32;
    let sb = b.steps as i32;
    if sa > sb + 1 {
        return Ord6::BBetter;
    }
    if sa + 1 < sb {
        return Ord6::ABetter;
    }
    if sa > sb {
        // A is one step further: compare receiver of A with sender of A
        return if a.receiver.0 < a.sender {
            Ord6::BBetter
        } else if a.receiver.0 > a.sender {
            Ord6::BBetterByTopology
        } else {
            Ord6::Error1
        };
    }
    if sa < sb {
        return if b.receiver.0 < b.sender {
            Ord6::ABetter
        } else if b.receiver.0 > b.sender {
            Ord6::ABetterByTopology
        } else {
            Ord6::Error1
        };
    }
    // equal steps removed: identities of senders, then port numbers of receivers
    if a.sender < b.sender {
        Ord6::ABetterByTopology
    } else if a.sender > b.sender {
        Ord6::BBetterByTopology
    } else if a.receiver.1 < b.receiver.1 {
        Ord6::ABetterByTopology
    } else if a.receiver.1 > b.receiver.1 {
        Ord6::BBetterByTopology
    } else {
        Ord6::Error2
    }
}

pub fn a_is_better(o: Ord6) -> bool {
    matches!(o, Ord6::ABetter | Ord6::ABetterByTopology)
}
pub fn b_is_better(o: Ord6) -> bool {
    matches!(o, Ord6::BBetter | Ord6::BBetterByTopology)
}

#[derive(Clone, Copy, Debug, PartialEq, Eq, Hash)]
pub enum Code {
    M1,
    M2,
    M3,
    P1,
    P2,
    S1,
    /// statime deviation (IEEE 1588-2008 behaviour): a LISTENING port without Erbest stays put
    Stay,
}

#[derive(Clone, Copy, Debug, PartialEq, Eq, Hash)]
pub enum PState {
    Listening,
    Master,
    Passive,
    Slave,
    Faulty,
}

#[derive(Clone, Debug)]
pub struct PortIn {
    pub number: u16,
    pub state: PState,
    pub master_only: bool,
    /// qualified foreign masters of this port (most recent Announce of each)
    pub masters: Vec<Ann>,
}

/// best of a set under the data set comparison; None if empty. Ties (error results) are left to
/// the caller to treat as "either is acceptable".
pub fn best_of(cands: &[(Ann, ([u8; 8], u16))]) -> Option<(Ann, ([u8; 8], u16))> {
    let mut best: Option<(Ann, ([u8; 8], u16))> = None;
    for c in cands {
        best = Some(match best {
            None => *c,
            Some(b) => {
                if a_is_better(compare(&CmpSet::of_ann(&c.0, c.1), &CmpSet::of_ann(&b.0, b.1))) {
                    *c
                } else {
                    b
                }
            }
        });
    }
    best
}

#[derive(Clone, Debug, PartialEq, Eq)]
pub struct Expect {
    pub codes: Vec<Code>,
    pub states: Vec<PState>,
    pub erbest: Vec<Option<Ann>>,
    pub ebest: Option<(Ann, u16)>,
    /// data set updates: None = untouched by this run
    pub steps_removed: Option<u16>,
    pub parent: Option<(([u8; 8], u16), [u8; 8], u8, u8, u16, u8, u8)>, // (parent pid, gm id, class, acc, var, p1, p2)
    /// Some(Some(ann)) = time properties of that Announce; Some(None) = own (M1/M2)
    pub time_props: Option<Option<Ann>>,
    /// ambiguity: two candidates compared as error-1/error-2 somewhere on the decision path
    pub ambiguous: bool,
}

/// Figure 33 + tables 30-33 for all ports of one instance
pub fn decide(own: &Own, ports: &[PortIn]) -> Expect {
    let d0 = CmpSet::of_own(own);
    let mut ambiguous = false;
    let mut erbest: Vec<Option<Ann>> = vec![];
    for p in ports {
        let cands: Vec<(Ann, ([u8; 8], u16))> = p.masters.iter().map(|a| (*a, (own.id, p.number))).collect();
        for i in 0..cands.len() {
            for j in 0..i {
                if matches!(compare(&CmpSet::of_ann(&cands[i].0, cands[i].1), &CmpSet::of_ann(&cands[j].0, cands[j].1)), Ord6::Error1 | Ord6::Error2) {
                    ambiguous = true;
                }
            }
        }
        erbest.push(best_of(&cands).map(|x| x.0));
    }
    // Ebest: best Erbest over ports that take part (not master-only, not faulty)
    let mut global: Vec<(Ann, ([u8; 8], u16))> = vec![];
    for (p, e) in ports.iter().zip(&erbest) {
        if p.master_only || p.state == PState::Faulty {
            continue;
        }
        if let Some(a) = e {
            global.push((*a, (own.id, p.number)));
        }
    }
    for i in 0..global.len() {
        for j in 0..i {
            if matches!(compare(&CmpSet::of_ann(&global[i].0, global[i].1), &CmpSet::of_ann(&global[j].0, global[j].1)), Ord6::Error1 | Ord6::Error2) {
                ambiguous = true;
            }
        }
    }
    let ebest = best_of(&global);
    // The comparison is not transitive for inconsistent inputs (one grandmaster identity
    // announced with different attributes over different paths): a "best" that does not beat
    // every other candidate depends on the order of comparison, for any implementation.
    if let Some((eb, ebrx)) = &ebest {
        for c in &global {
            if (c.0, c.1) != (*eb, *ebrx) && !a_is_better(compare(&CmpSet::of_ann(eb, *ebrx), &CmpSet::of_ann(&c.0, c.1))) {
                ambiguous = true;
            }
        }
    }
    for (p, e) in ports.iter().zip(&erbest) {
        if let Some(er) = e {
            for a in &p.masters {
                if a != er && !a_is_better(compare(&CmpSet::of_ann(er, (own.id, p.number)), &CmpSet::of_ann(a, (own.id, p.number)))) {
                    ambiguous = true;
                }
            }
        }
    }
    let mut codes = vec![];
    for (p, e) in ports.iter().zip(&erbest) {
        let code = if e.is_none() && p.state == PState::Listening {
            Code::Stay
        } else if (1..=127).contains(&own.class) {
            match e {
                None => Code::M1,
                Some(a) => {
                    let o = compare(&d0, &CmpSet::of_ann(a, (own.id, p.number)));
                    if matches!(o, Ord6::Error1 | Ord6::Error2) {
                        ambiguous = true;
                    }
                    if b_is_better(o) {
                        Code::P1
                    } else {
                        Code::M1
                    }
                }
            }
        } else {
            match &ebest {
                None => Code::M2,
                Some((eb, ebrx)) => {
                    let o = compare(&d0, &CmpSet::of_ann(eb, *ebrx));
                    if matches!(o, Ord6::Error1 | Ord6::Error2) {
                        ambiguous = true;
                    }
                    if !b_is_better(o) {
                        Code::M2
                    } else if ebrx.1 == p.number && !p.master_only && p.state != PState::Faulty {
                        Code::S1
                    } else {
                        match e {
                            None => Code::M3,
                            Some(er) => {
                                let o = compare(&CmpSet::of_ann(eb, *ebrx), &CmpSet::of_ann(er, (own.id, p.number)));
                                if o == Ord6::ABetterByTopology {
                                    Code::P2
                                } else {
                                    Code::M3
                                }
                            }
                        }
                    }
                }
            }
        };
        codes.push(code);
    }
    // resulting states (statime: no pre-master / uncalibrated states)
    let mut states = vec![];
    for (p, c) in ports.iter().zip(&codes) {
        let s = if p.state == PState::Faulty {
            PState::Faulty
        } else {
            match c {
                Code::Stay => p.state,
                Code::M1 | Code::M2 | Code::M3 => {
                    if own.slave_only {
                        PState::Listening
                    } else {
                        PState::Master
                    }
                }
                Code::P1 | Code::P2 => PState::Passive,
                Code::S1 => PState::Slave,
            }
        };
        states.push(s);
    }
    // data set updates, applied port by port
    let mut steps_removed = None;
    let mut parent = None;
    let mut time_props = None;
    for c in &codes {
        match c {
            Code::M1 | Code::M2 => {
                steps_removed = Some(0);
                parent = Some(((own.id, 0), own.id, own.class, own.acc, own.var, own.p1, own.p2));
                time_props = Some(None);
            }
            Code::S1 => {
                let (eb, _) = ebest.unwrap();
                steps_removed = Some(eb.steps + 1);
                parent = Some((eb.sender, eb.gm_id, eb.class, eb.acc, eb.var, eb.p1, eb.p2));
                time_props = Some(Some(eb));
            }
            _ => {}
        }
    }
    Expect { codes, states, erbest, ebest: ebest.map(|(a, rx)| (a, rx.1)), steps_removed, parent, time_props, ambiguous }
}

/// literal cases of the standard's figures, used as a self test of this reference
pub fn selftest() -> Result<usize, String> {
    let base = CmpSet { gm_id: [1; 8], p1: 128, class: 248, acc: 0xfe, var: 0xffff, p2: 128, steps: 1, sender: [5; 8], receiver: ([9; 8], 1) };
    let mut n = 0;
    let mut chk = |a: &CmpSet, b: &CmpSet, want: Ord6, what: &str| -> Result<(), String> {
        let got = compare(a, b);
        if got != want {
            return Err(format!("{what}: got {got:?}, want {want:?}"));
        }
        Ok(())
    };
    // figure 34 stages
    let mut b = base;
    b.gm_id = [2; 8];
    chk(&base, &b, Ord6::ABetter, "identity tie-break")?;
    b.p1 = 127;
    chk(&base, &b, Ord6::BBetter, "priority1")?;
    b.p1 = 128;
    b.class = 6;
    chk(&base, &b, Ord6::BBetter, "class")?;
    b.class = 248;
    b.acc = 0x20;
    chk(&base, &b, Ord6::BBetter, "accuracy")?;
    b.acc = 0xfe;
    b.var = 1;
    chk(&base, &b, Ord6::BBetter, "variance")?;
    b.var = 0xffff;
    b.p2 = 1;
    chk(&base, &b, Ord6::BBetter, "priority2")?;
    n += 6;
    // figure 35
    let mut b = base;
    b.steps = 3;
    chk(&base, &b, Ord6::ABetter, "steps +2")?;
    chk(&b, &base, Ord6::BBetter, "steps -2")?;
    b.steps = 2; // B one further; receiver of B vs sender of B
    b.receiver = ([4; 8], 1);
    b.sender = [5; 8];
    chk(&base, &b, Ord6::ABetter, "steps +1, receiver<sender")?;
    b.receiver = ([6; 8], 1);
    chk(&base, &b, Ord6::ABetterByTopology, "steps +1, receiver>sender")?;
    b.receiver = ([5; 8], 1);
    chk(&base, &b, Ord6::Error1, "steps +1, receiver==sender")?;
    let mut b = base;
    b.sender = [6; 8];
    chk(&base, &b, Ord6::ABetterByTopology, "equal steps, sender")?;
    b.sender = [5; 8];
    b.receiver = ([9; 8], 2);
    chk(&base, &b, Ord6::ABetterByTopology, "equal steps, receiver port")?;
    chk(&base, &base, Ord6::Error2, "identical")?;
    n += 8;
    Ok(n)
}
