//! C14 - peer-delay measurement is exact and guarded against multiple responders.

use rand::rngs::StdRng;
use rand::{Rng, SeedableRng};
use serde_json::json;
use statime::observability::port::PortState;
use statime::port::TimestampContext;

use crate::drive::*;
use crate::node::*;
use crate::refcodec::*;
use crate::report::*;

#[derive(Clone, Copy, Debug, PartialEq, Eq, serde::Serialize, serde::Deserialize)]
pub enum E {
    /// delay request timer: port emits Pdelay_Req
    T,
    /// transmit timestamp of the oldest outstanding Pdelay_Req
    X,
    /// Pdelay_Resp from responder (0=A, 1=B) for the latest request
    R(u8),
    /// Pdelay_Resp_Follow_Up from responder for the latest request
    F(u8),
    /// the same for the previous request
    ROld(u8),
    FOld(u8),
    /// response addressed to another requester
    ROther,
    /// response / follow-up of responder (0=A, 1=B) with the sequence id of the latest request but
    /// addressed to another port of the own clock (a sibling port's exchange on a shared segment)
    RSibling(u8),
    FSibling(u8),
    /// Announce of a lower-numbered port of the own clock (two ports of one boundary clock on the
    /// segment): makes a healthy port passive
    OwnClockAnnounce,
    /// master-role stimuli (must stay silent while faulty)
    AnnounceTimer,
    SyncTimer,
    DelayReq,
    AnnounceReceipt,
    Bmca,
    /// transmit timestamp of the oldest outstanding Sync (sent while the port was master; may be
    /// reported after the port has gone faulty)
    XSync,
}

#[derive(Clone, Debug, serde::Serialize, serde::Deserialize)]
pub struct Case {
    pub seed: u64,
    pub script: Vec<E>,
    pub two_step: [bool; 2],
    /// 0 listening, 1 master, 2 slave, 3 passive
    pub start_state: u8,
    pub base_kind: u8,
    pub kalman: bool,
    /// slave-only instance (start states listening / slave only)
    #[serde(default)]
    pub slave_only: bool,
}

struct Rx {
    seq: u16,
    t1: Option<u128>,
    /// per responder: response content + deliveries (rx times), follow-up content + delivered
    t2: [Ts; 2],
    corr_r: [i64; 2],
    t3: [Ts; 2],
    corr_f: [i64; 2],
    resp_rx: [Vec<u128>; 2],
    fu_delivered: [bool; 2],
    /// order in which responder identities first showed up for this request
    first_seen: Vec<u8>,
}

fn units_to_ts(u: u128) -> Ts {
    let ns = u >> 32;
    Ts { secs: (ns / 1_000_000_000) as u64, nanos: (ns % 1_000_000_000) as u32 }
}

fn rand_corr(rng: &mut StdRng) -> i64 {
    match rng.gen_range(0..3) {
        0 => 0,
        1 => rng.gen_range(-(1i64 << 30)..(1i64 << 30)),
        _ => rng.gen_range(-(1i64 << 40)..(1i64 << 40)),
    }
}

pub fn run_case(rep: &mut Report, case: &Case, verbose: bool) {
    let replay = serde_json::to_value(case).unwrap();
    let mut rng = StdRng::seed_from_u64(case.seed);
    let base: u128 = match case.base_kind {
        0 => 40 * SEC + rng.gen_range(0..SEC),
        1 => 1_700_000_000 * SEC + rng.gen_range(0..SEC),
        2 => (1u128 << 32) * SEC - 2 * SEC + rng.gen_range(0..SEC),
        _ => ((1u128 << 48) - 1000) * SEC + rng.gen_range(0..SEC),
    };
    let mut b = Build::new(2);
    b.p2p = true;
    b.seed = case.seed;
    b.rec_reply = ReplyMode::EchoDelay;
    // a configured delay asymmetry cancels in the mean link delay (it is subtracted on the way
    // out and added on the way in): the expected value does not contain it
    if case.seed % 3 == 0 {
        b.asymmetry_units = [250i128 << 32, -(700i128 << 32), 1i128 << 44, -(3i128 << 30)][(case.seed / 3 % 4) as usize];
        rep.ev("port_with_delay_asymmetry");
    }
    if case.kalman {
        b.filter = Some(FilterCfg::Kalman(Default::default()));
    }
    if case.start_state == 3 {
        b.clock_class = 6;
    }
    if case.slave_only {
        b.slave_only = true;
        b.clock_class = 255;
    }
    let Ok(built) = b.build() else { return };
    let mut node = built.node;
    let rec = built.rec;
    let mut parent = Remote::new(9, 1);
    let setup = match case.start_state {
        0 => Ok(()),
        1 => force_master(&mut node, 0).map(|_| ()),
        _ => make_slave(&mut node, 0, &mut parent).map(|_| ()),
    };
    if setup.is_err() {
        return;
    }
    let want = match case.start_state {
        0 => PortState::Listening,
        1 => PortState::Master,
        2 => PortState::Slave,
        _ => PortState::Passive,
    };
    if node.port_state(0) != want {
        rep.inconclusive(&format!("could not reach start state {}", state_name(want)));
        return;
    }
    rep.ev(&format!("start_{}", state_name(want)));
    let (oc, op) = node.port_identity_bytes(0);
    let own = Pid { clock: oc, port: op };
    let resp_src = [Src::new(clock_id(20).0, 1), Src::new(clock_id(21).0, 4)];
    let mut rxs: Vec<Rx> = vec![];
    let mut pending: Vec<(usize, TimestampContext)> = vec![];
    let mut pending_sync: Vec<TimestampContext> = vec![];
    let mut own_ann_seq = 0u16;
    let mut seen = rec.as_ref().map(|r| r.lock().unwrap().events.len()).unwrap_or(0);
    let mut clock_now = base;
    let clock = node.clock.clone();

    for (step, ev) in case.script.iter().enumerate() {
        clock_now += rng.gen_range(1..(1u128 << 36));
        clock.lock().unwrap().set_true(clock_now);
        let state_before = node.port_state(0);
        let clock_log_before = clock.lock().unwrap().log.len();
        let mut is_bmca = false;
        let mut new_identity = false;
        let call = match *ev {
            E::T => Some(Call::DelayRequestTimer),
            E::X => {
                if pending.is_empty() {
                    continue;
                }
                let (r, ctx) = pending.remove(0);
                let t1 = clock_now + rng.gen_range(0..(1u128 << 34));
                rxs[r].t1 = Some(t1);
                Some(Call::TxTimestamp(ctx, time_from_units(t1)))
            }
            E::R(x) | E::ROld(x) => {
                let x = (x % 2) as usize;
                let idx = if matches!(ev, E::R(_)) { rxs.len().checked_sub(1) } else { rxs.len().checked_sub(2) };
                let Some(idx) = idx else { continue };
                let r = &mut rxs[idx];
                let t4 = clock_now + rng.gen_range(0..(1u128 << 34));
                r.resp_rx[x].push(t4);
                if !r.first_seen.contains(&(x as u8)) {
                    r.first_seen.push(x as u8);
                    new_identity = true;
                }
                let m = resp_src[x].pdelay_resp(r.seq, case.two_step[x], r.t2[x], own, r.corr_r[x]);
                Some(Call::EventRx(m.encode(), time_from_units(t4)))
            }
            E::F(x) | E::FOld(x) => {
                let x = (x % 2) as usize;
                let idx = if matches!(ev, E::F(_)) { rxs.len().checked_sub(1) } else { rxs.len().checked_sub(2) };
                let Some(idx) = idx else { continue };
                let r = &mut rxs[idx];
                r.fu_delivered[x] = true;
                if !r.first_seen.contains(&(x as u8)) {
                    r.first_seen.push(x as u8);
                    new_identity = true;
                }
                let m = resp_src[x].pdelay_resp_fu(r.seq, r.t3[x], own, r.corr_f[x]);
                Some(Call::GeneralRx(m.encode()))
            }
            E::ROther => {
                let Some(r) = rxs.last() else { continue };
                let someone = Pid { clock: [3; 8], port: 9 };
                let m = resp_src[1].pdelay_resp(r.seq, true, units_to_ts(clock_now / 3), someone, 5);
                Some(Call::EventRx(m.encode(), time_from_units(clock_now)))
            }
            E::RSibling(x) | E::FSibling(x) => {
                let x = (x % 2) as usize;
                let Some(r) = rxs.last() else { continue };
                let sibling = Pid { clock: own.clock, port: own.port.wrapping_add(1 + (step as u16 % 3)) };
                // the sibling's exchange has its own timestamps
                let t = units_to_ts(clock_now / 2 + rng.gen_range(0..(1u128 << 40)));
                rep.ev("pdelay_message_addressed_to_sibling_port");
                if matches!(ev, E::RSibling(_)) {
                    let m = resp_src[x].pdelay_resp(r.seq, case.two_step[x], t, sibling, rand_corr(&mut rng));
                    Some(Call::EventRx(m.encode(), time_from_units(clock_now + rng.gen_range(0..(1u128 << 34)))))
                } else {
                    let m = resp_src[x].pdelay_resp_fu(r.seq, t, sibling, rand_corr(&mut rng));
                    Some(Call::GeneralRx(m.encode()))
                }
            }
            E::OwnClockAnnounce => {
                let src = Src::new(own.clock, own.port.wrapping_sub(1));
                own_ann_seq = own_ann_seq.wrapping_add(1);
                let mut body = AnnounceBody::default();
                body.gm_identity = own.clock;
                body.gm_priority1 = 128;
                body.gm_priority2 = 128;
                body.gm_class = 248;
                rep.ev("announce_from_lower_port_of_own_clock");
                Some(Call::GeneralRx(src.announce(own_ann_seq, body).encode()))
            }
            E::XSync => {
                if pending_sync.is_empty() {
                    continue;
                }
                let ctx = pending_sync.remove(0);
                Some(Call::TxTimestamp(ctx, time_from_units(clock_now + rng.gen_range(0..(1u128 << 34)))))
            }
            E::AnnounceTimer => Some(Call::AnnounceTimer),
            E::SyncTimer => Some(Call::SyncTimer),
            E::DelayReq => {
                let s = Src::new(clock_id(30).0, 1);
                Some(Call::EventRx(s.delay_req(rng.gen(), 0).encode(), time_from_units(clock_now)))
            }
            E::AnnounceReceipt => Some(Call::AnnounceReceiptTimer),
            E::Bmca => {
                is_bmca = true;
                None
            }
        };
        let acts: Vec<Act> = if is_bmca {
            match node.bmca() {
                Ok(a) => a.into_iter().flatten().collect(),
                Err(p) => {
                    rep.violation(&format!("C14|panic|{}|{}", p.site(), p.class()), &format!("step {step} bmca panicked: {}", p.describe()), replay.clone());
                    return;
                }
            }
        } else {
            match node.call(0, call.unwrap()) {
                Ok(a) => a,
                Err(p) => {
                    rep.violation(&format!("C14|panic|{}|{}", p.site(), p.class()), &format!("step {step} ({ev:?}) panicked: {}", p.describe()), replay.clone());
                    return;
                }
            }
        };
        let state_after = node.port_state(0);
        // emitted frames
        let mut tx_types = vec![];
        for a in acts {
            match a {
                Act::SendEvent { ctx, data, .. } => {
                    if let Ok(m) = Msg::decode(&data) {
                        tx_types.push(m.hdr.msg_type);
                        if m.hdr.msg_type == T_SYNC {
                            if let Some(c) = ctx {
                                pending_sync.push(c);
                            }
                            continue;
                        }
                        if m.hdr.msg_type == T_PDELAY_REQ {
                            let t2a = clock_now + rng.gen_range(0..(1u128 << 40));
                            let t2b = clock_now + rng.gen_range(0..(1u128 << 40));
                            let t3a = t2a + rng.gen_range(0..(1u128 << 38));
                            let t3b = t2b + rng.gen_range(0..(1u128 << 38));
                            rxs.push(Rx {
                                seq: m.hdr.seq,
                                t1: None,
                                t2: [units_to_ts(t2a), units_to_ts(t2b)],
                                corr_r: [rand_corr(&mut rng), rand_corr(&mut rng)],
                                t3: [units_to_ts(t3a), units_to_ts(t3b)],
                                corr_f: [rand_corr(&mut rng), rand_corr(&mut rng)],
                                resp_rx: [vec![], vec![]],
                                fu_delivered: [false, false],
                                first_seen: vec![],
                            });
                            if let Some(c) = ctx {
                                pending.push((rxs.len() - 1, c));
                            }
                        }
                    }
                }
                Act::SendGeneral { data, .. } => {
                    if let Ok(m) = Msg::decode(&data) {
                        tx_types.push(m.hdr.msg_type);
                    }
                }
                _ => {}
            }
        }
        // --- faulty-state role clause
        if state_before == PortState::Faulty {
            rep.ev("call_while_faulty");
            for t in &tx_types {
                if matches!(*t, T_ANNOUNCE | T_SYNC | T_FOLLOW_UP | T_DELAY_RESP) {
                    rep.violation(&format!("C14|faulty-acts-as-master|{}", type_name(*t)), &format!("step {step} ({ev:?}): faulty port emitted {}", type_name(*t)), replay.clone());
                }
            }
            let log = clock.lock().unwrap().log[clock_log_before..].to_vec();
            for c in log {
                if !matches!(c.kind, ClockCallKind::SetProperties(_)) {
                    rep.violation("C14|faulty-steers-clock", &format!("step {step} ({ev:?}): clock command {:?} while faulty", c.kind), replay.clone());
                }
            }
        }
        // --- measurements
        let mut new_meas = vec![];
        if let Some(rec) = &rec {
            let g = rec.lock().unwrap();
            for e in &g.events[seen..] {
                if let RecEvent::Measurement { m, .. } = e {
                    new_meas.push(*m);
                }
            }
            seen = g.events.len();
        }
        let mut recovered_by: Option<(usize, usize)> = None;
        for m in &new_meas {
            let Some(pd) = m.peer_delay else { continue };
            rep.ev("peer_delay_measurement");
            let v = dur_units(pd);
            // find the single (request, responder) combination that explains it
            let mut hit = None;
            for (ri, r) in rxs.iter().enumerate() {
                let Some(t1) = r.t1 else { continue };
                for x in 0..2 {
                    if r.resp_rx[x].is_empty() {
                        continue;
                    }
                    if case.two_step[x] && !r.fu_delivered[x] {
                        continue;
                    }
                    for &t4 in &r.resp_rx[x] {
                        let resp_recv = t4 as i128 - ((r.corr_r[x] as i128) << 16);
                        let t2 = r.t2[x].to_units() as i128;
                        let t3 = if case.two_step[x] { r.t3[x].to_units() as i128 + ((r.corr_f[x] as i128) << 16) } else { t2 };
                        let twice = (resp_recv - t1 as i128) - (t3 - t2);
                        if (2 * v - twice).abs() <= 2 && time_units(m.event_time) as i128 == resp_recv {
                            hit = Some((ri, x));
                        }
                    }
                }
            }
            match hit {
                None => {
                    rep.violation("C14|peer-delay|not-one-exchange", &format!("step {step} ({ev:?}): peer_delay {v} units / event_time {} is not ((t4-t1)-(t3-t2))/2 of any single request and responder", time_units(m.event_time)), replay.clone());
                }
                Some((ri, x)) => {
                    recovered_by = Some((ri, x));
                    let r = &rxs[ri];
                    if r.first_seen.first() != Some(&(x as u8)) {
                        rep.violation("C14|peer-delay|later-responder-used", &format!("step {step} ({ev:?}): measurement uses responder {x} although responder {:?} answered request {} first", r.first_seen.first(), r.seq), replay.clone());
                    }
                }
            }
            if m.raw_sync_offset.is_some() || m.raw_delay_offset.is_some() || m.offset.is_some() || m.delay.is_some() {
                rep.violation("C14|peer-delay|shape", &format!("step {step}: peer delay measurement carries other fields {m:?}"), replay.clone());
            }
        }
        // --- two responders for the current request => Faulty
        if matches!(ev, E::R(_) | E::F(_)) {
            if let Some(r) = rxs.last() {
                // judged at the moment the second responder identity shows up for the request the
                // port is currently measuring (duplicates of known responders prove nothing new)
                if r.first_seen.len() == 2 && new_identity {
                    rep.ev("two_responders_current_request");
                    if state_after != PortState::Faulty {
                        rep.violation("C14|two-responders|not-faulty", &format!("step {step} ({ev:?}): responses from two responders to request {} but port is {}", r.seq, state_name(state_after)), replay.clone());
                    }
                }
            }
        }
        // --- leaving Faulty (needs the recording filter to see the recovering measurement)
        if rec.is_some() && state_before == PortState::Faulty && state_after != PortState::Faulty {
            rep.ev("left_faulty");
            match recovered_by {
                Some((ri, x)) => {
                    let r = &rxs[ri];
                    if r.first_seen.len() != 1 || r.first_seen[0] != x as u8 {
                        rep.violation("C14|faulty-exit|exchange-with-two-responders", &format!("step {step} ({ev:?}): port left Faulty on an exchange (request {}) that was answered by {} responders", r.seq, r.first_seen.len()), replay.clone());
                    } else {
                        rep.ev("recovered_single_responder");
                    }
                }
                None => {
                    let route = match ev {
                        E::AnnounceReceipt => "announce-receipt-timer",
                        E::Bmca => "bmca",
                        E::OwnClockAnnounce => "announce-from-own-clock",
                        _ => "other",
                    };
                    rep.violation(&format!("C14|faulty-exit|{route}"), &format!("step {step} ({ev:?}): port left Faulty for {} without a completed single-responder exchange", state_name(state_after)), replay.clone());
                }
            }
        }
        // --- must leave Faulty after a clean exchange
        if state_after == PortState::Faulty {
            if let Some((ri, x)) = recovered_by {
                let r = &rxs[ri];
                if r.first_seen.len() == 1 && r.first_seen[0] == x as u8 {
                    rep.violation("C14|faulty-stuck|clean-exchange", &format!("step {step}: still Faulty after a complete exchange answered only by responder {x}"), replay.clone());
                }
            }
        }
        if state_before != PortState::Faulty && state_after == PortState::Faulty {
            rep.ev("entered_faulty");
        }
        if verbose {
            eprintln!("step {step}: {ev:?}: {} -> {} tx={:?} meas={}", state_name(state_before), state_name(state_after), tx_types, new_meas.len());
        }
    }
}

fn alphabet() -> Vec<E> {
    vec![E::X, E::R(0), E::F(0), E::R(1), E::F(1)]
}

pub fn run(rep: &mut Report, tier: &str, seed: u64, shard: (u32, u32), replay: Option<&str>) {
    rep.rule = "event scripts on a P2P port in each start state (Listening/Master/Slave/Passive, later Faulty): every sequence up to a length bound over {tx timestamp, Resp_A, FU_A, Resp_B, FU_B} after each of two consecutive requests is enumerated (one-/two-step per responder), plus seeded scripts with old-request responses, other-requester responses and master-role stimuli; unique timestamps per (request, responder); distinct = distinct (script, parameters); non-trivial = a peer-delay measurement or a Faulty transition occurred".into();
    rep.require(&["peer_delay_measurement", "entered_faulty", "left_faulty", "recovered_single_responder", "call_while_faulty", "two_responders_current_request", "start_Listening", "start_Master", "start_Slave", "start_Passive", "pdelay_message_addressed_to_sibling_port", "port_with_delay_asymmetry", "announce_from_lower_port_of_own_clock"]);
    if let Some(path) = replay {
        let v: serde_json::Value = serde_json::from_str(&std::fs::read_to_string(path).unwrap()).unwrap();
        if let Ok(c) = serde_json::from_value::<Case>(v["case"].clone()) {
            run_case(rep, &c, true);
        }
        println!("replay: {} finding(s)", rep.findings.len());
        for f in rep.findings.values() {
            println!("  {}", f.what);
        }
        return;
    }
    let mut rng = StdRng::seed_from_u64(seed ^ 0xc14 ^ ((shard.0 as u64) << 40));
    let mut count = |rep: &mut Report, case: &Case| {
        let k = |rep: &Report| rep.events.get("peer_delay_measurement").copied().unwrap_or(0) + rep.events.get("entered_faulty").copied().unwrap_or(0);
        let before = k(rep);
        run_case(rep, case, false);
        rep.evaluations += 1;
        if k(rep) > before {
            rep.distinct_case(&format!("{case:?}"));
        }
    };
    let alpha = alphabet();
    let max_len = if tier == "thorough" { 6 } else { 4 };
    let mut idx = 0u64;
    let mut enumerated = 0u64;
    for len1 in 0..=max_len {
        for len2 in 0..=(max_len - len1).min(3) {
            let total = (alpha.len() as u64).pow((len1 + len2) as u32);
            for code in 0..total {
                idx += 1;
                if idx % shard.1 as u64 != shard.0 as u64 {
                    continue;
                }
                let mut c = code;
                let mut script = vec![E::T];
                for _ in 0..len1 {
                    script.push(alpha[(c % 5) as usize]);
                    c /= 5;
                }
                script.push(E::T);
                for _ in 0..len2 {
                    script.push(alpha[(c % 5) as usize]);
                    c /= 5;
                }
                // a clean third exchange with responder A so that a Faulty port can recover
                script.extend_from_slice(&[E::T, E::X, E::X, E::X, E::R(0), E::F(0)]);
                let case = Case {
                    seed: seed.wrapping_mul(31).wrapping_add(idx),
                    script,
                    two_step: [[true, true], [false, false], [true, false], [false, true]][(idx % 4) as usize],
                    start_state: if idx / 64 % 4 == 3 { [0u8, 2][(idx / 4 % 2) as usize] } else { (idx / 4 % 4) as u8 },
                    base_kind: (idx / 16 % 4) as u8,
                    kalman: false,
                    slave_only: idx / 64 % 4 == 3,
                };
                count(rep, &case);
                enumerated += 1;
            }
        }
    }
    // a Sync is in flight when the fault is detected; its transmit timestamp arrives afterwards
    if shard.0 == 0 {
        for v in 0..16u64 {
            let mut script = vec![E::SyncTimer, E::T];
            if v & 1 != 0 {
                script.push(E::X);
            }
            script.extend_from_slice(if v & 2 != 0 { &[E::R(0), E::R(1)] } else { &[E::R(1), E::F(1), E::R(0)] });
            script.extend_from_slice(&[E::XSync, E::AnnounceTimer, E::SyncTimer, E::XSync, E::T, E::X, E::X, E::R(0), E::F(0)]);
            let case = Case { seed: seed.wrapping_add(7000 + v), script, two_step: [v & 4 != 0, v & 8 != 0], start_state: 1, base_kind: (v % 4) as u8, kalman: false, slave_only: false };
            count(rep, &case);
            enumerated += 1;
        }
    }
    // a sibling port of the own clock runs its exchange with the same sequence id on the segment
    if shard.0 == 0 {
        let variants: [&[E]; 8] = [
            &[E::T, E::X, E::R(0), E::FSibling(0), E::F(0)],
            &[E::T, E::X, E::FSibling(0), E::R(0), E::F(0)],
            &[E::T, E::R(0), E::FSibling(0), E::X, E::F(0)],
            &[E::T, E::X, E::RSibling(0), E::R(0), E::F(0)],
            &[E::T, E::X, E::R(0), E::RSibling(0), E::FSibling(0), E::F(0)],
            &[E::T, E::X, E::RSibling(1), E::FSibling(1), E::R(0), E::F(0)],
            &[E::T, E::X, E::R(0), E::F(0), E::FSibling(0), E::T, E::X, E::R(0), E::FSibling(1), E::F(0)],
            &[E::T, E::X, E::R(0), E::RSibling(1), E::F(0)],
        ];
        for (vi, v) in variants.iter().enumerate() {
            for k in 0..16u64 {
                let case = Case { seed: seed.wrapping_add(9000 + 16 * vi as u64 + k), script: v.to_vec(), two_step: [k & 1 == 0, k & 2 == 0], start_state: (k / 4 % 4) as u8, base_kind: (k % 4) as u8, kalman: false, slave_only: false };
                count(rep, &case);
                enumerated += 1;
            }
        }
    }
    // a faulty port hears another port of its own clock
    if shard.0 == 0 {
        let variants: [&[E]; 4] = [
            &[E::T, E::X, E::R(0), E::R(1), E::OwnClockAnnounce, E::AnnounceTimer, E::SyncTimer, E::Bmca, E::AnnounceTimer, E::T, E::X, E::R(0), E::F(0)],
            &[E::OwnClockAnnounce, E::T, E::X, E::R(0), E::R(1), E::Bmca, E::Bmca, E::SyncTimer, E::T, E::X, E::R(0), E::F(0)],
            &[E::T, E::X, E::R(1), E::R(0), E::OwnClockAnnounce, E::Bmca, E::Bmca, E::Bmca, E::AnnounceTimer, E::T, E::X, E::R(0), E::F(0)],
            &[E::T, E::R(0), E::F(0), E::R(1), E::OwnClockAnnounce, E::OwnClockAnnounce, E::Bmca, E::AnnounceReceipt, E::T, E::X, E::R(0), E::F(0)],
        ];
        for (vi, v) in variants.iter().enumerate() {
            for k in 0..16u64 {
                let case = Case { seed: seed.wrapping_add(9500 + 16 * vi as u64 + k), script: v.to_vec(), two_step: [k & 1 == 0, k & 2 == 0], start_state: (k / 4 % 4) as u8, base_kind: (k % 4) as u8, kalman: false, slave_only: false };
                count(rep, &case);
                enumerated += 1;
            }
        }
    }
    rep.extra.insert("enumerated_scripts".into(), json!(enumerated));
    let full = [E::T, E::X, E::R(0), E::F(0), E::R(1), E::F(1), E::ROld(0), E::FOld(1), E::ROld(1), E::ROther, E::RSibling(0), E::FSibling(0), E::FSibling(1), E::OwnClockAnnounce, E::AnnounceTimer, E::SyncTimer, E::SyncTimer, E::XSync, E::DelayReq, E::AnnounceReceipt, E::Bmca, E::T, E::X, E::R(0), E::F(0)];
    let n: u64 = if tier == "thorough" { 400_000 } else { 60_000 };
    let budget = Budget::new(n, if tier == "thorough" { 600.0 } else { 15.0 });
    let mut i = 0;
    while budget.left(i) {
        i += 1;
        let len = rng.gen_range(3..=30);
        let script: Vec<E> = (0..len).map(|_| full[rng.gen_range(0..full.len())]).collect();
        let slave_only = rng.gen_bool(0.15);
        let case = Case { seed: rng.gen(), script, two_step: [rng.gen(), rng.gen()], start_state: if slave_only { [0u8, 2][rng.gen_range(0..2)] } else { rng.gen_range(0..4) }, base_kind: rng.gen_range(0..4), kalman: rng.gen_bool(0.15), slave_only };
        if i <= 2 {
            rep.sample(serde_json::to_value(&case).unwrap());
        }
        count(rep, &case);
    }
}
