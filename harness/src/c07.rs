//! C07 - traffic from unselected, unacceptable or foreign-domain sources has no effect.
//! Oracle: pure two-run comparison (no model): the same concrete host history is run with and
//! without inserted noise frames; every observable of corresponding base calls must be identical
//! and every noise call must return no actions.

use rand::rngs::StdRng;
use rand::{Rng, SeedableRng};
use serde_json::json;
use statime::observability::port::PortState;

use crate::drive::*;
use crate::hostile::*;
use crate::node::*;
use crate::refcodec::*;
use crate::report::*;

#[derive(Clone, Debug, PartialEq)]
struct Obs {
    digests: Vec<String>,
    snapshot: String,
    clock_log: Vec<String>,
    rec_events: usize,
    rec_tail: String,
}

fn observe(ex: &Exec, digests: Vec<String>) -> Obs {
    let snap = ex.node.snapshot().map(|s| format!("{:?}|{:?}|{}", s.port_states, s.steering, s.datasets)).unwrap_or_else(|_| "panic".into());
    let clock_log: Vec<String> = ex.node.clock.lock().unwrap().log.iter().map(|c| format!("{}:{:?}:{}", c.port, c.kind, c.ok)).collect();
    let (n, tail) = match &ex.rec {
        Some(r) => {
            let g = r.lock().unwrap();
            (g.events.len(), g.events.last().map(|e| format!("{e:?}")).unwrap_or_default())
        }
        None => (0, String::new()),
    };
    Obs { digests, snapshot: snap, clock_log, rec_events: n, rec_tail: tail }
}

#[derive(Clone, Debug, serde::Serialize, serde::Deserialize)]
pub struct Case {
    pub cfg: Config,
    pub gen_seed: u64,
    pub noise_seed: u64,
    pub n_ops: usize,
    #[serde(default)]
    pub base_ops: Vec<Op>,
    #[serde(default)]
    pub noise: Vec<(usize, Op, String)>,
}

const CATEGORIES: [&str; 13] = [
    "domain", "sdo-id", "version", "truncated", "bad-length", "malformed-tlv", "announce-unacceptable-master", "announce-own-port-identity", "announce-unacceptable-own-clock-other-port",
    "sync-non-parent", "followup-non-parent", "delayresp-non-parent", "delayresp-other-requester",
];

/// derive a noise frame of the given category from a valid frame of the history
fn make_noise(rng: &mut StdRng, cat: &str, base: &Msg, ex: &Exec, port: usize) -> Option<(Vec<u8>, bool)> {
    let mut m = base.clone();
    m.hdr.length = None;
    let event = matches!(m.hdr.msg_type, T_SYNC | T_DELAY_REQ | T_PDELAY_REQ | T_PDELAY_RESP);
    let pd = ex.node.inst().parent_ds();
    let parent = Pid { clock: pd.parent_port_identity.clock_identity.0, port: pd.parent_port_identity.port_number };
    let (oc, op) = ex.node.port_identity_bytes(port);
    let own = Pid { clock: oc, port: op };
    let stranger = Pid { clock: [0xde, 0xad, 0xbe, 0xef, 0, 0, 0, rng.gen_range(1..200)], port: 1 };
    match cat {
        "domain" => m.hdr.domain = m.hdr.domain.wrapping_add(if rng.gen_bool(0.5) { 1 } else { 255 }),
        "sdo-id" => {
            if rng.gen_bool(0.5) {
                m.hdr.minor_sdo = m.hdr.minor_sdo.wrapping_add(1);
                // ... from a PTP 2.0 sender (minorVersionPTP 0) every other time
                if rng.gen_bool(0.5) {
                    m.hdr.minor_version = 0;
                }
            } else {
                m.hdr.major_sdo = (m.hdr.major_sdo + 1) & 0x0f;
            }
        }
        "version" => m.hdr.version = [0u8, 1, 3, 4, 7, 15][rng.gen_range(0..6)],
        "truncated" => {
            let mut b = m.encode();
            let n = rng.gen_range(0..b.len());
            b.truncate(n);
            return Some((b, event));
        }
        "bad-length" => {
            let b = m.encode();
            if rng.gen_bool(0.4) {
                // 1-3 stray octets behind the last TLV (or the body), covered by messageLength
                // and really there: too short to be a TLV, the message is malformed
                let k = rng.gen_range(1..=3usize);
                let mut b2 = b.clone();
                b2.extend((0..k).map(|_| if rng.gen_bool(0.5) { 0u8 } else { rng.gen() }));
                let l = b2.len() as u16;
                b2[2..4].copy_from_slice(&l.to_be_bytes());
                return Some((b2, event));
            }
            let mut b2 = b.clone();
            let l = [(b.len() + 1) as u16, (b.len() + 40) as u16, 33, 0, 65535][rng.gen_range(0..5)];
            b2[2..4].copy_from_slice(&l.to_be_bytes());
            return Some((b2, event));
        }
        "malformed-tlv" => {
            m.tlvs = vec![Tlv { ty: TLV_ORG_EXT_PROP, value: vec![1, 2, 3, 4, 5, 6], len_override: Some([7u16, 9, 200][rng.gen_range(0..3)]) }];
        }
        "announce-unacceptable-master" => {
            if m.hdr.msg_type != T_ANNOUNCE || ex.cfg.ports[port].aml == 0 {
                return None;
            }
            // an identity that is on no list
            m.hdr.src = stranger;
        }
        "announce-unacceptable-own-clock-other-port" => {
            // another port number of the instance's own clock identity while the port's acceptable master
            // list (kind 2) does not contain it: unacceptable like any other identity that is not listed
            if m.hdr.msg_type != T_ANNOUNCE || ex.cfg.ports[port].aml != 2 {
                return None;
            }
            let other = if rng.gen_bool(0.5) { own.port.wrapping_sub(1) } else { own.port.wrapping_add(rng.gen_range(1..5)) };
            if other == own.port {
                return None;
            }
            m.hdr.src = Pid { clock: own.clock, port: other };
        }
        "announce-own-port-identity" => {
            if m.hdr.msg_type != T_ANNOUNCE {
                return None;
            }
            m.hdr.src = own;
        }
        "sync-non-parent" | "followup-non-parent" | "delayresp-non-parent" => {
            let want = match cat {
                "sync-non-parent" => T_SYNC,
                "followup-non-parent" => T_FOLLOW_UP,
                _ => T_DELAY_RESP,
            };
            if m.hdr.msg_type != want {
                return None;
            }
            if m.hdr.src == stranger || stranger == parent {
                return None;
            }
            m.hdr.src = stranger;
        }
        "delayresp-other-requester" => {
            if m.hdr.msg_type != T_DELAY_RESP {
                return None;
            }
            if let Body::DelayResp { receive, .. } = m.body {
                m.body = Body::DelayResp { receive, requesting: stranger };
            }
        }
        _ => return None,
    }
    Some((m.encode(), event))
}

const SCRIPTED_CATEGORIES: [&str; 3] = ["sync-former-parent-port", "followup-former-parent-port", "delayresp-former-parent-port"];

/// A scripted history the random driver does not produce: the selected parent moves from one port
/// of a master clock to another port of the *same* clock (boundary clock reachable through two of
/// its ports), then Sync / Follow_Up / Delay_Resp still arrive from the port that is no longer the
/// parent. Returns a replayable case (base ops + planned noise) for `run_case`.
fn parent_port_switch_case(seed: u64) -> Option<Case> {
    let mut rng = StdRng::seed_from_u64(seed);
    let mut cfg = gen_config(&mut rng);
    cfg.ports.truncate(1);
    {
        let p = &mut cfg.ports[0];
        p.p2p = false;
        p.master_only = false;
        p.aml = 0;
        p.minor_zero = false;
        p.receipt_timeout = 10;
        p.asymmetry = 0;
    }
    cfg.slave_only = rng.gen_bool(0.2);
    cfg.class = if cfg.slave_only { 255 } else { 248 };
    cfg.p1 = 128;
    cfg.domain = 0;
    cfg.sdo = 0;
    cfg.tlv = 0;
    cfg.filter = [1u8, 2][rng.gen_range(0..2)];
    cfg.clock_fail_every = 0;
    cfg.start = 1_700_000_000 * SEC;
    let mut ex = Exec::new(&cfg).ok()?;
    let mut ops: Vec<Op> = vec![];
    let mut noise: Vec<(usize, Op, String)> = vec![];
    let x = clock_id(0x33).0;
    let (hi, lo) = if rng.gen_bool(0.5) { (2u16, 1u16) } else { (rng.gen_range(2..60000), 1) };
    let old = Src::new(x, hi);
    let newp = Src::new(x, lo);
    let mut body = AnnounceBody::default();
    body.gm_identity = clock_id(0x34).0;
    body.gm_priority1 = 50;
    body.steps_removed = 1;
    let flags = [0u8, 0b0000_1000];
    let (oc, op_) = ex.node.port_identity_bytes(0);
    let own = Pid { clock: oc, port: op_ };
    let mut seq_a = rng.gen::<u16>();
    let mut seq_s = rng.gen::<u16>();
    macro_rules! push {
        ($op:expr) => {{
            let o: Op = $op;
            ex.apply(&o).ok()?;
            ops.push(o);
        }};
    }
    let now = |ex: &Exec| ex.node.clock.lock().unwrap().read();
    let ts = |u: u128| Ts { secs: ((u >> 32) / 1_000_000_000) as u64, nanos: ((u >> 32) % 1_000_000_000) as u32 };
    // 1. slave of X:hi
    for _ in 0..rng.gen_range(2..4) {
        let mut m = old.announce(seq_a, body.clone());
        m.hdr.flags = flags;
        seq_a = seq_a.wrapping_add(1);
        push!(Op::General { port: 0, data: hex(&m.encode()) });
        push!(Op::Advance(500_000_000));
    }
    push!(Op::Bmca);
    if ex.node.port_state(0) != PortState::Slave {
        return None;
    }
    // 2. one sync and one delay exchange with X:hi so that a mean delay is known
    let sync_from = |src: &Src, seq: u16, ex: &Exec, rng: &mut StdRng, two_step: bool| -> (Op, Option<Op>) {
        let t2 = now(ex);
        let t1 = t2 - (rng.gen_range(50_000..900_000u128) << 32);
        if two_step {
            (Op::Event { port: 0, data: hex(&src.sync(seq, true, Ts::default(), 0).encode()), t: t2 }, Some(Op::General { port: 0, data: hex(&src.follow_up(seq, ts(t1), 0).encode()) }))
        } else {
            (Op::Event { port: 0, data: hex(&src.sync(seq, false, ts(t1), 0).encode()), t: t2 }, None)
        }
    };
    let two_step = rng.gen_bool(0.5);
    let (s, f) = sync_from(&old, seq_s, &ex, &mut rng, two_step);
    seq_s = seq_s.wrapping_add(1);
    push!(s);
    if let Some(f) = f {
        push!(f);
    }
    push!(Op::Timer { port: 0, kind: 2 });
    let dreq = ex.last_tx.iter().find_map(|(_, d, _)| Msg::decode(d).ok().filter(|m| m.hdr.msg_type == T_DELAY_REQ))?;
    let t3 = now(&ex);
    push!(Op::TxTs { port: 0, which: 0, t: t3 });
    let t4 = t3 + (rng.gen_range(50_000..900_000u128) << 32);
    push!(Op::General { port: 0, data: hex(&old.delay_resp(dreq.hdr.seq, ts(t4), own, 0).encode()) });
    push!(Op::Advance(300_000_000));
    // 3. X:lo starts announcing the same grandmaster and wins the tie-break (lower port number)
    for _ in 0..rng.gen_range(2..4) {
        let mut m = newp.announce(seq_a, body.clone());
        m.hdr.flags = flags;
        seq_a = seq_a.wrapping_add(1);
        push!(Op::General { port: 0, data: hex(&m.encode()) });
        push!(Op::Advance(400_000_000));
    }
    push!(Op::Bmca);
    let pd = ex.node.inst().parent_ds();
    if ex.node.port_state(0) != PortState::Slave || pd.parent_port_identity.port_number != lo || pd.parent_port_identity.clock_identity.0 != x {
        return None;
    }
    // 4. traffic of the new parent continues; frames of the former parent port are the noise
    for k in 0..rng.gen_range(2..5) {
        push!(Op::Advance(250_000_000));
        // noise before this round
        let which = rng.gen_range(0..3);
        match which {
            0 => {
                let (s, _) = sync_from(&old, seq_s.wrapping_add(100 + k), &ex, &mut rng, false);
                noise.push((ops.len(), s, SCRIPTED_CATEGORIES[0].into()));
            }
            1 => {
                let (s, f) = sync_from(&old, seq_s.wrapping_add(200 + k), &ex, &mut rng, true);
                noise.push((ops.len(), s, SCRIPTED_CATEGORIES[0].into()));
                noise.push((ops.len(), f.unwrap(), SCRIPTED_CATEGORIES[1].into()));
            }
            _ => {
                // a delay request is outstanding: the former parent port answers it
                push!(Op::Timer { port: 0, kind: 2 });
                if let Some(dreq) = ex.last_tx.iter().find_map(|(_, d, _)| Msg::decode(d).ok().filter(|m| m.hdr.msg_type == T_DELAY_REQ)) {
                    let t3 = now(&ex);
                    push!(Op::TxTs { port: 0, which: 0, t: t3 });
                    let t4 = t3 + (rng.gen_range(50_000..900_000u128) << 32);
                    noise.push((ops.len(), Op::General { port: 0, data: hex(&old.delay_resp(dreq.hdr.seq, ts(t4), own, 0).encode()) }, SCRIPTED_CATEGORIES[2].into()));
                }
            }
        }
        let ts2 = rng.gen_bool(0.5);
        let (s, f) = sync_from(&newp, seq_s, &ex, &mut rng, ts2);
        seq_s = seq_s.wrapping_add(1);
        push!(s);
        if let Some(f) = f {
            push!(f);
        }
        push!(Op::Timer { port: 0, kind: 4 });
    }
    push!(Op::Bmca);
    Some(Case { cfg, gen_seed: seed, noise_seed: seed, n_ops: ops.len(), base_ops: ops, noise })
}

pub fn run_case(rep: &mut Report, case: &Case) {
    // ---------------- run A: generate + record
    let Ok(mut a) = Exec::new(&case.cfg) else { return };
    let mut gen = Gen::new(case.gen_seed, false, &case.cfg);
    let mut base_ops: Vec<Op> = vec![];
    let mut obs_a: Vec<Obs> = vec![];
    let mut states_a: Vec<Vec<PortState>> = vec![];
    let replayed = !case.base_ops.is_empty();
    let mut queue: std::collections::VecDeque<Op> = if replayed { case.base_ops.clone().into() } else { gen.setup_ops(&a).into() };
    let n = if replayed { case.base_ops.len() } else { case.n_ops };
    for _ in 0..n {
        let op = match queue.pop_front() {
            Some(o) => o,
            None => {
                if replayed {
                    break;
                }
                gen.next(&a)
            }
        };
        states_a.push(a.states());
        match a.apply(&op) {
            Ok(r) => {
                obs_a.push(observe(&a, r.digests));
                base_ops.push(op);
            }
            Err(_) => {
                rep.observe("base history ended by a panic (see C03)");
                break;
            }
        }
    }
    // ---------------- run B: same ops + noise
    let Ok(mut b) = Exec::new(&case.cfg) else { return };
    let mut rng = StdRng::seed_from_u64(case.noise_seed);
    let mut noise_log: Vec<(usize, Op, String)> = vec![];
    let mut planned: std::collections::VecDeque<(usize, Op, String)> = case.noise.clone().into();
    let mut recent: Vec<(usize, Msg)> = vec![];
    for (i, op) in base_ops.iter().enumerate() {
        // remember valid frames of the history as noise templates
        let (port_of_op, frame) = match op {
            Op::Event { port, data, .. } | Op::General { port, data } => (*port, Msg::decode(&unhex(data)).ok()),
            _ => (0, None),
        };
        // insert noise before this op
        let mut noise_now: Vec<(Op, String)> = vec![];
        if replayed {
            while planned.front().map(|p| p.0 == i).unwrap_or(false) {
                let (_, o, c) = planned.pop_front().unwrap();
                noise_now.push((o, c));
            }
        } else {
            let k = if rng.gen_bool(0.35) { rng.gen_range(1..=2) } else { 0 };
            for _ in 0..k {
                let cat = CATEGORIES[rng.gen_range(0..CATEGORIES.len())];
                // template: the frame about to be delivered (noise right before it) or a recent one
                let tmpl = if frame.is_some() && rng.gen_bool(0.5) { frame.clone().map(|f| (port_of_op, f)) } else if !recent.is_empty() { Some(recent[rng.gen_range(0..recent.len())].clone()) } else { None };
                let Some((tp, tm)) = tmpl else { continue };
                if tm.hdr.version != 2 || tm.hdr.domain != case.cfg.domain || tm.hdr.sdo_id() != case.cfg.sdo {
                    continue;
                }
                let Some((bytes, event)) = make_noise(&mut rng, cat, &tm, &b, tp) else { continue };
                let nop = if event { Op::Event { port: tp, data: hex(&bytes), t: b.node.clock.lock().unwrap().read() } } else { Op::General { port: tp, data: hex(&bytes) } };
                noise_now.push((nop, cat.to_string()));
            }
        }
        for (nop, cat) in noise_now {
            let st = match &nop {
                Op::Event { port, .. } | Op::General { port, .. } => b.node.port_state(*port),
                _ => PortState::Listening,
            };
            noise_log.push((i, nop.clone(), cat.clone()));
            rep.ev("noise_inserted");
            rep.ev(&format!("noise_{cat}"));
            rep.distinct_label(&format!("{cat}|{}", state_name(st)));
            let before = observe(&b, vec![]);
            match b.apply(&nop) {
                Ok(r) => {
                    let after = observe(&b, vec![]);
                    if !r.digests.is_empty() {
                        let mut c = case.clone();
                        c.base_ops = base_ops.clone();
                        c.noise = noise_log.clone();
                        rep.violation(&format!("C07|noise-returns-actions|{cat}"), &format!("a {cat} frame on a {} port returned actions {:?}", state_name(st), r.digests), serde_json::to_value(&c).unwrap());
                    }
                    if before != after {
                        let mut c = case.clone();
                        c.base_ops = base_ops.clone();
                        c.noise = noise_log.clone();
                        let what = if before.snapshot != after.snapshot { "port state / data sets" } else if before.clock_log != after.clock_log { "clock calls" } else { "filter measurements" };
                        rep.violation(&format!("C07|noise-changes-state|{cat}"), &format!("a {cat} frame on a {} port changed {what}", state_name(st)), serde_json::to_value(&c).unwrap());
                    }
                }
                Err(p) => {
                    let mut c = case.clone();
                    c.base_ops = base_ops.clone();
                    c.noise = noise_log.clone();
                    rep.violation(&format!("C07|noise-panics|{cat}|{}", p.class()), &format!("a {cat} frame panicked the port: {}", p.describe()), serde_json::to_value(&c).unwrap());
                    return;
                }
            }
        }
        // the base op itself
        match b.apply(op) {
            Ok(r) => {
                let ob = observe(&b, r.digests);
                rep.ev("base_call_compared");
                if ob != obs_a[i] {
                    let mut c = case.clone();
                    c.base_ops = base_ops.clone();
                    c.noise = noise_log.clone();
                    let cats: Vec<&str> = noise_log.iter().map(|n| n.2.as_str()).collect();
                    let last_cat = cats.last().copied().unwrap_or("none");
                    let what = if ob.digests != obs_a[i].digests {
                        format!("returned actions differ: {:?} vs {:?}", ob.digests, obs_a[i].digests)
                    } else if ob.snapshot != obs_a[i].snapshot {
                        "port state / data sets differ".to_string()
                    } else if ob.clock_log != obs_a[i].clock_log {
                        "clock calls differ".to_string()
                    } else {
                        "filter measurements differ".to_string()
                    };
                    rep.violation(&format!("C07|later-behaviour-differs|{last_cat}"), &format!("base call {i} ({}) behaves differently after inserted noise {cats:?}: {what}", op.kind()), serde_json::to_value(&c).unwrap());
                    return;
                }
            }
            Err(_) => {
                rep.observe("run with noise panicked on a base op");
                return;
            }
        }
        if let Some(f) = frame {
            if recent.len() >= 12 {
                recent.remove(0);
            }
            recent.push((port_of_op, f));
        }
    }
}

pub fn run(rep: &mut Report, tier: &str, seed: u64, shard: (u32, u32), replay: Option<&str>) {
    rep.rule = "pairs of lock-step runs of one concrete host history (from the stateful hostile driver, consistent timestamps, ~200 calls): the second run additionally receives noise frames, each derived from a valid frame of the same history by exactly one disqualifying edit (12 categories) and inserted right before / some calls after the frame it was derived from; distinct = (noise category x port state) cells hit; evaluations = history pairs".into();
    rep.require(&["noise_inserted", "base_call_compared"]);
    for c in CATEGORIES.iter().chain(SCRIPTED_CATEGORIES.iter()) {
        rep.required_events.push(format!("noise_{c}"));
    }
    if let Some(path) = replay {
        let v: serde_json::Value = serde_json::from_str(&std::fs::read_to_string(path).unwrap()).unwrap();
        match serde_json::from_value::<Case>(v["case"].clone()) {
            Ok(c) => run_case(rep, &c),
            Err(e) => println!("cannot parse replay: {e}"),
        }
        println!("replay: {} finding(s)", rep.findings.len());
        for f in rep.findings.values() {
            println!("  {}", f.what);
        }
        return;
    }
    let mut rng = StdRng::seed_from_u64(seed ^ 0xc07 ^ ((shard.0 as u64) << 40));
    let n: u64 = if tier == "thorough" { 60_000 } else { 1500 };
    let budget = Budget::new(n, if tier == "thorough" { 800.0 } else { 20.0 });
    let mut i = 0;
    while budget.left(i) {
        i += 1;
        let mut cfg = gen_config(&mut rng);
        cfg.filter = [0u8, 2, 2][rng.gen_range(0..3)];
        cfg.clock_fail_every = 0;
        if rng.gen_bool(0.4) {
            for p in cfg.ports.iter_mut() {
                p.aml = 1;
            }
        }
        let case = Case { cfg, gen_seed: rng.gen(), noise_seed: rng.gen(), n_ops: 200, base_ops: vec![], noise: vec![] };
        if i <= 2 {
            rep.sample(json!({"config": case.cfg, "n_ops": case.n_ops}));
        }
        run_case(rep, &case);
        rep.evaluations += 1;
        if i % 10 == 0 {
            match parent_port_switch_case(rng.gen()) {
                Some(c) => {
                    rep.ev("parent_port_switch_history");
                    run_case(rep, &c);
                    rep.evaluations += 1;
                }
                None => rep.ev("parent_port_switch_history_not_reached"),
            }
        }
    }
}
