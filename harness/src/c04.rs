//! C04 - wire codec is total, lossless on defined fields and self-consistent.
//! Oracle: independent reference codec (`refcodec`) + two-run tail independence + a parser of the
//! derived `Debug` output of `FuzzMessage` (read side).

use rand::rngs::StdRng;
use rand::{Rng, SeedableRng};
use serde_json::json;
use statime::fuzz::FuzzMessage;

use crate::node::*;
use crate::refcodec::*;
use crate::report::*;

// ------------------------------------------------------------------------------------------
// Debug-output parser (format dependent: a parse failure is *inconclusive*, never a violation)

/// text of the value following `key: ` (balanced up to the next top-level ',' or closing bracket)
fn field<'a>(text: &'a str, key: &str) -> Option<&'a str> {
    let pat = format!("{key}: ");
    let mut start = 0;
    loop {
        let i = text[start..].find(&pat)? + start;
        // must be preceded by a delimiter so that e.g. `port_number` does not match `xport_number`
        let ok = i == 0 || matches!(text.as_bytes()[i - 1], b' ' | b'{' | b'(' | b',');
        if ok {
            let v = &text[i + pat.len()..];
            let mut depth = 0i32;
            for (j, c) in v.char_indices() {
                match c {
                    '{' | '(' | '[' => depth += 1,
                    '}' | ')' | ']' => {
                        if depth == 0 {
                            return Some(v[..j].trim());
                        }
                        depth -= 1;
                    }
                    ',' if depth == 0 => return Some(v[..j].trim()),
                    _ => {}
                }
            }
            return Some(v.trim());
        }
        start = i + pat.len();
    }
}

fn num<T: std::str::FromStr>(text: &str, key: &str) -> Option<T> {
    field(text, key)?.parse().ok()
}

fn boolean(text: &str, key: &str) -> Option<bool> {
    match field(text, key)? {
        "true" => Some(true),
        "false" => Some(false),
        _ => None,
    }
}

fn inner<'a>(v: &'a str, open: char, close: char) -> Option<&'a str> {
    let i = v.find(open)?;
    let j = v.rfind(close)?;
    if j > i {
        Some(&v[i + 1..j])
    } else {
        None
    }
}

fn byte_list(v: &str) -> Option<Vec<u8>> {
    let body = inner(v, '[', ']')?;
    if body.trim().is_empty() {
        return Some(vec![]);
    }
    body.split(',').map(|x| x.trim().parse::<u8>().ok()).collect()
}

fn pid(text: &str, key: &str) -> Option<Pid> {
    let v = field(text, key)?;
    let ci = byte_list(field(v, "clock_identity")?)?;
    if ci.len() != 8 {
        return None;
    }
    let mut c = [0u8; 8];
    c.copy_from_slice(&ci);
    Some(Pid { clock: c, port: num(v, "port_number")? })
}

fn ts(text: &str, key: &str) -> Option<Ts> {
    let v = field(text, key)?;
    Some(Ts { secs: num(v, "seconds")?, nanos: num(v, "nanos")? })
}

/// shortest-roundtrip decimal -> I48F16 bits (parsed with `fixed`'s own FromStr, which is what
/// its Display guarantees to round-trip with)
fn fixed16(v: &str) -> Option<i64> {
    let v = inner(v, '(', ')')?.trim();
    v.parse::<fixed::types::I48F16>().ok().map(|x| x.to_bits())
}

fn accuracy_code(v: &str) -> Option<Option<u8>> {
    // Some(None) = "Reserved" (value not preserved by the data model)
    let names = [
        ("PS1", 0x17u8), ("PS2_5", 0x18), ("PS10", 0x19), ("PS25", 0x1a), ("PS100", 0x1b), ("PS250", 0x1c),
        ("NS1", 0x1d), ("NS2_5", 0x1e), ("NS10", 0x1f), ("NS25", 0x20), ("NS100", 0x21), ("NS250", 0x22),
        ("US1", 0x23), ("US2_5", 0x24), ("US10", 0x25), ("US25", 0x26), ("US100", 0x27), ("US250", 0x28),
        ("MS1", 0x29), ("MS2_5", 0x2a), ("MS10", 0x2b), ("MS25", 0x2c), ("MS100", 0x2d), ("MS250", 0x2e),
        ("S1", 0x2f), ("S10", 0x30), ("SGT10", 0x31), ("Unknown", 0xfe),
    ];
    if v == "Reserved" {
        return Some(None);
    }
    if let Some(r) = v.strip_prefix("ProfileSpecific(") {
        let n: u8 = r.trim_end_matches(')').parse().ok()?;
        return Some(Some(0x80u8.checked_add(n)?));
    }
    names.iter().find(|(n, _)| *n == v).map(|(_, c)| Some(*c))
}

pub fn accuracy_is_reserved(c: u8) -> bool {
    matches!(c, 0x00..=0x16 | 0x32..=0x7f | 0xff)
}

fn time_source_code(v: &str) -> Option<u8> {
    let names = [
        ("AtomicClock", 0x10u8), ("Gnss", 0x20), ("TerrestrialRadio", 0x30), ("SerialTimeCode", 0x39), ("Ptp", 0x40),
        ("Ntp", 0x50), ("HandSet", 0x60), ("Other", 0x90), ("InternalOscillator", 0xa0), ("Reserved", 0xff),
    ];
    if let Some(r) = v.strip_prefix("ProfileSpecific(") {
        let n: u8 = r.trim_end_matches(')').parse().ok()?;
        return 0xf0u8.checked_add(n);
    }
    if let Some(r) = v.strip_prefix("Unknown(") {
        return r.trim_end_matches(')').parse().ok();
    }
    names.iter().find(|(n, _)| *n == v).map(|(_, c)| *c)
}

/// Compare the Debug rendering of what statime decoded with refcodec's reading of the same bytes.
/// Ok(None) = agree; Ok(Some(desc)) = a defined field differs; Err = cannot parse (inconclusive).
fn debug_vs_ref(dbg: &str, r: &Msg) -> Result<Option<String>, String> {
    let bi = dbg.find("body: ").ok_or("no body")?;
    let (h, rest) = dbg.split_at(bi);
    let si = rest.rfind("suffix: ").ok_or("no suffix")?;
    let (b, sfx) = rest.split_at(si);
    let e = |k: &str| format!("cannot parse {k}");
    macro_rules! cmp {
        ($name:expr, $got:expr, $want:expr) => {
            let g = $got;
            let w = $want;
            if g != w {
                return Ok(Some(format!("{}: statime decoded {:?}, reference {:?}", $name, g, w)));
            }
        };
    }
    let sdo = inner(field(h, "sdo_id").ok_or(e("sdo_id"))?, '(', ')').and_then(|x| x.parse::<u16>().ok()).ok_or(e("sdo_id"))?;
    cmp!("sdoId", sdo, r.hdr.sdo_id());
    let ver = field(h, "version").ok_or(e("version"))?;
    cmp!("versionPTP", num::<u8>(ver, "major").ok_or(e("major"))?, r.hdr.version);
    cmp!("minorVersionPTP", num::<u8>(ver, "minor").ok_or(e("minor"))?, r.hdr.minor_version);
    cmp!("domainNumber", num::<u8>(h, "domain_number").ok_or(e("domain"))?, r.hdr.domain);
    let flags = [
        ("alternate_master_flag", F_ALT_MASTER), ("two_step_flag", F_TWO_STEP), ("unicast_flag", F_UNICAST),
        ("ptp_profile_specific_1", F_PROFILE1), ("ptp_profile_specific_2", F_PROFILE2), ("leap61", F_LEAP61),
        ("leap59", F_LEAP59), ("current_utc_offset_valid", F_UTC_VALID), ("ptp_timescale", F_PTP_TIMESCALE),
        ("time_tracable", F_TIME_TRACEABLE), ("frequency_tracable", F_FREQ_TRACEABLE),
        ("synchronization_uncertain", F_SYNC_UNCERTAIN),
    ];
    for (k, f) in flags {
        cmp!(k, boolean(h, k).ok_or(e(k))?, r.hdr.flag(f));
    }
    // the decimal rendering of `fixed` is only guaranteed to 1 LSB (observed: it does not always
    // round-trip); bit-exact reading of correctionField is checked through measurements in C09/C16
    let corr = fixed16(field(h, "correction_field").ok_or(e("corr"))?).ok_or(e("corr value"))?;
    if (corr as i128 - r.hdr.correction as i128).abs() > 1 {
        return Ok(Some(format!("correctionField: statime decoded {corr}, reference {}", r.hdr.correction)));
    }
    cmp!("sourcePortIdentity", pid(h, "source_port_identity").ok_or(e("spi"))?, r.hdr.src);
    cmp!("sequenceId", num::<u16>(h, "sequence_id").ok_or(e("seq"))?, r.hdr.seq);
    cmp!("logMessageInterval", num::<i8>(h, "log_message_interval").ok_or(e("lmi"))?, r.hdr.log_interval);
    let variant = b["body: ".len()..].split('(').next().unwrap_or("").trim();
    cmp!("messageType", variant, type_name(r.hdr.msg_type));
    match &r.body {
        Body::Sync { origin } | Body::DelayReq { origin } | Body::PdelayReq { origin, .. } => {
            cmp!("originTimestamp", ts(b, "origin_timestamp").ok_or(e("origin_timestamp"))?, *origin);
        }
        Body::FollowUp { precise_origin } => {
            cmp!("preciseOriginTimestamp", ts(b, "precise_origin_timestamp").ok_or(e("pot"))?, *precise_origin);
        }
        Body::DelayResp { receive, requesting } => {
            cmp!("receiveTimestamp", ts(b, "receive_timestamp").ok_or(e("rt"))?, *receive);
            cmp!("requestingPortIdentity", pid(b, "requesting_port_identity").ok_or(e("rpi"))?, *requesting);
        }
        Body::PdelayResp { request_receipt, requesting } => {
            cmp!("requestReceiptTimestamp", ts(b, "request_receive_timestamp").ok_or(e("rrt"))?, *request_receipt);
            cmp!("requestingPortIdentity", pid(b, "requesting_port_identity").ok_or(e("rpi"))?, *requesting);
        }
        Body::PdelayRespFu { response_origin, requesting } => {
            cmp!("responseOriginTimestamp", ts(b, "response_origin_timestamp").ok_or(e("rot"))?, *response_origin);
            cmp!("requestingPortIdentity", pid(b, "requesting_port_identity").ok_or(e("rpi"))?, *requesting);
        }
        Body::Announce(a) => {
            cmp!("originTimestamp", ts(b, "origin_timestamp").ok_or(e("origin_timestamp"))?, a.origin);
            cmp!("currentUtcOffset", num::<i16>(b, "current_utc_offset").ok_or(e("utc"))?, a.utc_offset);
            cmp!("grandmasterPriority1", num::<u8>(b, "grandmaster_priority_1").ok_or(e("p1"))?, a.gm_priority1);
            cmp!("grandmasterPriority2", num::<u8>(b, "grandmaster_priority_2").ok_or(e("p2"))?, a.gm_priority2);
            let q = field(b, "grandmaster_clock_quality").ok_or(e("quality"))?;
            cmp!("clockClass", num::<u8>(q, "clock_class").ok_or(e("class"))?, a.gm_class);
            let acc = accuracy_code(field(q, "clock_accuracy").ok_or(e("acc"))?).ok_or(e("acc name"))?;
            match acc {
                Some(c) => {
                    cmp!("clockAccuracy", c, a.gm_accuracy);
                }
                None => {
                    if !accuracy_is_reserved(a.gm_accuracy) {
                        return Ok(Some(format!("clockAccuracy: statime decoded Reserved for defined value {:#x}", a.gm_accuracy)));
                    }
                }
            }
            cmp!("offsetScaledLogVariance", num::<u16>(q, "offset_scaled_log_variance").ok_or(e("var"))?, a.gm_variance);
            let gi = byte_list(field(b, "grandmaster_identity").ok_or(e("gmid"))?).ok_or(e("gmid bytes"))?;
            cmp!("grandmasterIdentity", gi, a.gm_identity.to_vec());
            cmp!("stepsRemoved", num::<u16>(b, "steps_removed").ok_or(e("steps"))?, a.steps_removed);
            cmp!("timeSource", time_source_code(field(b, "time_source").ok_or(e("tsrc"))?).ok_or(e("tsrc name"))?, a.time_source);
        }
        Body::Signaling { target } => {
            cmp!("targetPortIdentity", pid(b, "target_port_identity").ok_or(e("tpi"))?, *target);
        }
        Body::Management { target, starting_hops, hops, action, .. } => {
            cmp!("targetPortIdentity", pid(b, "target_port_identity").ok_or(e("tpi"))?, *target);
            cmp!("startingBoundaryHops", num::<u8>(b, "starting_boundary_hops").ok_or(e("sbh"))?, *starting_hops);
            cmp!("boundaryHops", num::<u8>(b, "boundary_hops").ok_or(e("bh"))?, *hops);
            let act = field(b, "action").ok_or(e("action"))?;
            let want = match action & 0x0f {
                0 => "GET",
                1 => "SET",
                2 => "RESPONSE",
                3 => "COMMAND",
                4 => "ACKNOWLEDGE",
                _ => "Reserved",
            };
            // actionField is the low nibble; the high nibble is reserved
            if action & 0xf0 == 0 {
                cmp!("actionField", act, want);
            }
        }
        Body::Raw(_) => {}
    }
    let bytes = byte_list(field(sfx, "bytes").ok_or(e("suffix bytes"))?).ok_or(e("suffix list"))?;
    let mut want = vec![];
    for t in &r.tlvs {
        t.enc(&mut want);
    }
    cmp!("TLV suffix", bytes, want);
    Ok(None)
}

// ------------------------------------------------------------------------------------------
// comparison of two refcodec readings on the fields IEEE 1588 defines

fn defined_diff(a: &Msg, b: &Msg) -> Option<String> {
    macro_rules! cmp {
        ($name:expr, $x:expr, $y:expr) => {
            if $x != $y {
                return Some(format!("{}: input {:?}, re-encoded {:?}", $name, $x, $y));
            }
        };
    }
    cmp!("majorSdoId", a.hdr.major_sdo, b.hdr.major_sdo);
    cmp!("messageType", a.hdr.msg_type, b.hdr.msg_type);
    cmp!("minorVersionPTP", a.hdr.minor_version, b.hdr.minor_version);
    cmp!("versionPTP", a.hdr.version, b.hdr.version);
    cmp!("messageLength", a.hdr.length, b.hdr.length);
    cmp!("domainNumber", a.hdr.domain, b.hdr.domain);
    cmp!("minorSdoId", a.hdr.minor_sdo, b.hdr.minor_sdo);
    cmp!("flagField[0]", a.hdr.flags[0] & DEFINED_FLAGS[0], b.hdr.flags[0] & DEFINED_FLAGS[0]);
    cmp!("flagField[1]", a.hdr.flags[1] & DEFINED_FLAGS[1], b.hdr.flags[1] & DEFINED_FLAGS[1]);
    cmp!("correctionField", a.hdr.correction, b.hdr.correction);
    cmp!("sourcePortIdentity", a.hdr.src, b.hdr.src);
    cmp!("sequenceId", a.hdr.seq, b.hdr.seq);
    cmp!("logMessageInterval", a.hdr.log_interval, b.hdr.log_interval);
    match (&a.body, &b.body) {
        (Body::Announce(x), Body::Announce(y)) => {
            let mut x = x.clone();
            let mut y = y.clone();
            x.reserved = 0;
            y.reserved = 0;
            if accuracy_is_reserved(x.gm_accuracy) && accuracy_is_reserved(y.gm_accuracy) {
                x.gm_accuracy = 0;
                y.gm_accuracy = 0;
            }
            cmp!("Announce body", x, y);
        }
        (Body::PdelayReq { origin: x, .. }, Body::PdelayReq { origin: y, .. }) => {
            cmp!("originTimestamp", x, y);
        }
        (
            Body::Management { target: t1, starting_hops: s1, hops: h1, action: a1, .. },
            Body::Management { target: t2, starting_hops: s2, hops: h2, action: a2, .. },
        ) => {
            cmp!("targetPortIdentity", t1, t2);
            cmp!("startingBoundaryHops", s1, s2);
            cmp!("boundaryHops", h1, h2);
            let c = |v: u8| if v & 0x0f <= 4 { v & 0x0f } else { 5 };
            cmp!("actionField", c(*a1), c(*a2));
        }
        (x, y) => {
            cmp!("body", x, y);
        }
    }
    cmp!("TLVs", a.tlvs, b.tlvs);
    None
}

// ------------------------------------------------------------------------------------------
// the per-input oracle

pub struct Outcome {
    pub accepted: bool,
}

pub fn check_input(rep: &mut Report, b: &[u8], label: &str, rng: &mut StdRng) -> Outcome {
    let replay = || json!({"bytes": hex(b), "label": label});
    let mut viol = |rep: &mut Report, clause: &str, class: &str, detail: String| {
        rep.violation(&format!("C04|{clause}|{class}"), &format!("{clause} [{class}]: {detail}"), replay());
    };
    // (0) the versionPTP pre-filter every received buffer passes first (ports and the daemon's
    // socket loop call it before decoding) is total, and lets through whatever the decoder accepts
    let pre = guarded(|| statime::port::is_message_buffer_compatible(b));
    rep.ev("prefilter_called");
    if let Err(p) = &pre {
        viol(rep, "total", &format!("prefilter|{}|{}", p.site(), p.class()), format!("is_message_buffer_compatible panicked on {} octet(s): {} at {}", b.len(), p.message, p.location));
        return Outcome { accepted: false };
    }
    // (1) total
    let r = guarded(|| FuzzMessage::deserialize(b).map(|m| (format!("{m:?}"), m)).map_err(|e| e.to_string()));
    let (dbg, msg) = match r {
        Err(p) => {
            viol(rep, "total", &format!("{}|{}", p.site(), p.class()), format!("deserialize panicked: {} at {}", p.message, p.location));
            return Outcome { accepted: false };
        }
        Ok(Err(_)) => {
            rep.ev("rejected");
            return Outcome { accepted: false };
        }
        Ok(Ok(x)) => x,
    };
    rep.ev("accepted");
    let mt = b[0] & 0x0f;
    rep.ev(&format!("accepted_{}", type_name(mt)));
    // (2) declared length
    let l = u16::from_be_bytes([b[2], b[3]]) as usize;
    if l < 34 || l > b.len() {
        viol(rep, "declared-length", "accepted", format!("accepted a buffer of {} bytes declaring messageLength {l}", b.len()));
        return Outcome { accepted: true };
    }
    // tail independence (two-run): bytes beyond messageLength must not matter
    {
        let exact = &b[..l];
        let mut j1 = exact.to_vec();
        let mut j2 = exact.to_vec();
        let n1 = rng.gen_range(1..40);
        for _ in 0..n1 {
            j1.push(rng.gen());
        }
        let n2 = rng.gen_range(1..9);
        for _ in 0..n2 {
            j2.push(0xff);
        }
        let r0 = guarded(|| FuzzMessage::deserialize(exact).ok().map(|m| m == msg));
        let r1 = guarded(|| FuzzMessage::deserialize(&j1).ok().map(|m| m == msg));
        let r2 = guarded(|| FuzzMessage::deserialize(&j2).ok().map(|m| m == msg));
        rep.ev("tail_pairs");
        for (k, r) in [("exact", r0), ("random-tail", r1), ("ff-tail", r2)] {
            match r {
                Ok(Some(true)) => {}
                Ok(Some(false)) => viol(rep, "tail-independence", k, "result depends on bytes beyond messageLength".into()),
                Ok(None) => viol(rep, "tail-independence", k, "accepted/rejected depends on bytes beyond messageLength".into()),
                Err(p) => viol(rep, "total", &format!("{}|{}", p.site(), p.class()), format!("deserialize panicked with {k}: {}", p.message)),
            }
        }
    }
    // (3) re-encode
    let mut out0 = vec![0u8; l + 64];
    let mut outf = vec![0xffu8; l + 64];
    let s = guarded(|| {
        let a = msg.serialize(&mut out0).map_err(|e| e.to_string());
        let b2 = msg.serialize(&mut outf).map_err(|e| e.to_string());
        (a, b2)
    });
    let n = match s {
        Err(p) => {
            viol(rep, "re-encode", &format!("panic|{}|{}", p.site(), p.class()), format!("serialize panicked: {} at {}", p.message, p.location));
            return Outcome { accepted: true };
        }
        Ok((Err(e), _)) | Ok((_, Err(e))) => {
            viol(rep, "re-encode", "error", format!("serialize of a decoded message failed: {e}"));
            return Outcome { accepted: true };
        }
        Ok((Ok(a), Ok(b2))) => {
            if a != b2 {
                viol(rep, "re-encode", "length-unstable", format!("lengths {a} vs {b2}"));
            }
            a
        }
    };
    rep.ev("reencoded");
    let s1 = &out0[..n.min(out0.len())];
    if n != l {
        viol(rep, "re-encode", "length", format!("declared messageLength {l}, re-encoded length {n}"));
    }
    if n >= 4 && u16::from_be_bytes([s1[2], s1[3]]) as usize != n {
        viol(rep, "re-encode", "length-field", format!("re-encoded {n} bytes but messageLength field says {}", u16::from_be_bytes([s1[2], s1[3]])));
    }
    if out0[..n] != outf[..n] {
        // reserved bytes left unwritten are not demanded by the property ("reserved bits aside"),
        // but every defined field must come out of the encoder whatever the buffer held before
        rep.observe("re-encoded bytes depend on previous buffer contents (unwritten reserved bytes)");
        let sf = &outf[..n.min(outf.len())];
        match guarded(|| FuzzMessage::deserialize(sf).ok().map(|m| m == msg)) {
            Ok(Some(true)) => rep.ev("dirty_buffer_roundtrip"),
            Ok(Some(false)) => viol(rep, "roundtrip", "unequal-into-dirty-buffer", "decode(encode(m)) != m when the output buffer held 0xff bytes before: the encoder leaves a defined field to the buffer's previous contents".into()),
            Ok(None) => viol(rep, "roundtrip", "undecodable-into-dirty-buffer", "encode(m) into a buffer that held 0xff bytes is rejected by the decoder".into()),
            Err(p) => viol(rep, "total", &format!("{}|{}", p.site(), p.class()), format!("deserialize of bytes re-encoded into a dirty buffer panicked: {}", p.message)),
        }
        if let (Ok(ri), Ok(rf)) = (Msg::decode(&b[..l]), Msg::decode(sf)) {
            if let Some(d) = defined_diff(&ri, &rf) {
                let field_name = d.split(':').next().unwrap_or("").to_string();
                viol(rep, "lossless-into-dirty-buffer", &format!("{}|{}", type_name(mt), field_name), d);
            }
        }
    }
    match guarded(|| FuzzMessage::deserialize(s1).ok().map(|m| m == msg)) {
        Ok(Some(true)) => {}
        Ok(Some(false)) => viol(rep, "roundtrip", "unequal", "decode(encode(m)) != m".into()),
        Ok(None) => viol(rep, "roundtrip", "undecodable", "encode(m) is rejected by the decoder".into()),
        Err(p) => viol(rep, "total", &format!("{}|{}", p.site(), p.class()), format!("deserialize of re-encoded bytes panicked: {}", p.message)),
    }
    // reference codec comparison
    match (Msg::decode(&b[..l]), Msg::decode(s1)) {
        (Ok(ri), Ok(ro)) => {
            rep.ev("refcodec_compared");
            if let Some(d) = defined_diff(&ri, &ro) {
                let field_name = d.split(':').next().unwrap_or("").to_string();
                viol(rep, "lossless", &format!("{}|{}", type_name(mt), field_name), d);
            }
            // (4) read side through Debug
            match debug_vs_ref(&dbg, &ri) {
                Ok(None) => rep.ev("debug_compared"),
                Ok(Some(d)) => {
                    let field_name = d.split(':').next().unwrap_or("").to_string();
                    viol(rep, "read-side", &format!("{}|{}", type_name(mt), field_name), d);
                }
                Err(e) => {
                    rep.ev("debug_parse_failed");
                    rep.observe(&format!("Debug parser: {e}"));
                }
            }
            if !ri.trailing.is_empty() {
                rep.observe("accepted message with bytes after the last TLV");
            }
        }
        (Err(e), _) => {
            // statime accepted something whose framing the reference cannot follow
            viol(rep, "framing", "ref-rejects-input", format!("reference codec cannot frame an accepted input: {e}"));
        }
        (_, Err(e)) => {
            viol(rep, "framing", "ref-rejects-output", format!("reference codec cannot frame re-encoded bytes: {e}"));
        }
    }
    Outcome { accepted: true }
}

// ------------------------------------------------------------------------------------------
// generators

fn rand_ts(rng: &mut StdRng) -> Ts {
    match rng.gen_range(0..5) {
        0 => Ts { secs: 0, nanos: 0 },
        1 => Ts { secs: (1 << 48) - 1, nanos: 999_999_999 },
        2 => Ts { secs: rng.gen_range(0..(1u64 << 48)), nanos: rng.gen() },
        _ => Ts { secs: rng.gen_range(0..(1u64 << 48)), nanos: rng.gen_range(0..1_000_000_000) },
    }
}

fn rand_pid(rng: &mut StdRng) -> Pid {
    Pid { clock: rng.gen(), port: [0u16, 1, 0xffff, rng.gen()][rng.gen_range(0..4)] }
}

fn lattice_i64(rng: &mut StdRng) -> i64 {
    match rng.gen_range(0..8) {
        0 => 0,
        1 => 1,
        2 => -1,
        3 => i64::MAX,
        4 => i64::MIN,
        5 => 1 << 47,
        6 => 0x18000,
        _ => rng.gen(),
    }
}

pub fn rand_body(rng: &mut StdRng, t: u8) -> Body {
    match t {
        T_SYNC => Body::Sync { origin: rand_ts(rng) },
        T_DELAY_REQ => Body::DelayReq { origin: rand_ts(rng) },
        T_PDELAY_REQ => Body::PdelayReq { origin: rand_ts(rng), reserved: if rng.gen_bool(0.5) { [0; 10] } else { rng.gen() } },
        T_PDELAY_RESP => Body::PdelayResp { request_receipt: rand_ts(rng), requesting: rand_pid(rng) },
        T_FOLLOW_UP => Body::FollowUp { precise_origin: rand_ts(rng) },
        T_DELAY_RESP => Body::DelayResp { receive: rand_ts(rng), requesting: rand_pid(rng) },
        T_PDELAY_RESP_FU => Body::PdelayRespFu { response_origin: rand_ts(rng), requesting: rand_pid(rng) },
        T_ANNOUNCE => Body::Announce(AnnounceBody {
            origin: rand_ts(rng),
            utc_offset: [0i16, 37, -1, i16::MIN, i16::MAX, rng.gen()][rng.gen_range(0..6)],
            reserved: if rng.gen_bool(0.7) { 0 } else { rng.gen() },
            gm_priority1: rng.gen(),
            gm_class: rng.gen(),
            gm_accuracy: rng.gen(),
            gm_variance: rng.gen(),
            gm_priority2: rng.gen(),
            gm_identity: rng.gen(),
            steps_removed: [0u16, 1, 254, 255, 256, 65535, rng.gen()][rng.gen_range(0..7)],
            time_source: rng.gen(),
        }),
        T_SIGNALING => Body::Signaling { target: rand_pid(rng) },
        T_MANAGEMENT => Body::Management {
            target: rand_pid(rng),
            starting_hops: rng.gen(),
            hops: rng.gen(),
            action: if rng.gen_bool(0.7) { rng.gen_range(0..6) } else { rng.gen() },
            reserved: if rng.gen_bool(0.7) { 0 } else { rng.gen() },
        },
        _ => Body::Raw((0..rng.gen_range(0..40)).map(|_| rng.gen()).collect()),
    }
}

pub fn rand_tlvs(rng: &mut StdRng) -> Vec<Tlv> {
    let n = match rng.gen_range(0..10) {
        0..=4 => 0,
        5..=6 => 1,
        7 => 2,
        _ => rng.gen_range(3..=6),
    };
    let mut v = vec![];
    for _ in 0..n {
        let ty = match rng.gen_range(0..10) {
            0 => TLV_PATH_TRACE,
            1 => TLV_ALT_TIME_OFFSET,
            2 => TLV_ORG_EXT,
            3 => TLV_ORG_EXT_PROP,
            4 => TLV_ORG_EXT_NOPROP,
            5 => TLV_PAD,
            6 => rng.gen_range(0x4000..0x8000),
            7 => 0x0001,
            _ => rng.gen(),
        };
        let len = match rng.gen_range(0..8) {
            0 => 0,
            1 => 1,
            2 => 2,
            3 => rng.gen_range(0..40) * 2 + 1,
            4 => 8 * rng.gen_range(0..20),
            _ => rng.gen_range(0..60) * 2,
        };
        v.push(Tlv::new(ty, (0..len).map(|_| rng.gen()).collect()));
    }
    v
}

pub fn rand_msg(rng: &mut StdRng, t: u8) -> Msg {
    let mut h = Hdr::new(t);
    h.major_sdo = if rng.gen_bool(0.5) { 0 } else { rng.gen_range(0..16) };
    h.minor_sdo = if rng.gen_bool(0.5) { 0 } else { rng.gen() };
    h.minor_version = if rng.gen_bool(0.6) { 1 } else { rng.gen_range(0..16) };
    h.version = if rng.gen_bool(0.85) { 2 } else { rng.gen_range(0..16) };
    h.domain = if rng.gen_bool(0.5) { 0 } else { rng.gen() };
    h.flags = match rng.gen_range(0..4) {
        0 => [0, 0],
        1 => [rng.gen::<u8>() & DEFINED_FLAGS[0], rng.gen::<u8>() & DEFINED_FLAGS[1]],
        _ => [rng.gen(), rng.gen()],
    };
    h.correction = lattice_i64(rng);
    h.type_specific = if rng.gen_bool(0.7) { [0; 4] } else { rng.gen() };
    h.src = rand_pid(rng);
    h.seq = [0u16, 1, 0x7fff, 0x8000, 0xffff, rng.gen()][rng.gen_range(0..6)];
    h.control = if rng.gen_bool(0.8) { None } else { Some(rng.gen()) };
    h.log_interval = [0i8, 1, -3, 127, -128, rng.gen()][rng.gen_range(0..6)];
    Msg { hdr: h, body: rand_body(rng, t), tlvs: rand_tlvs(rng), trailing: vec![] }
}

fn mutate(rng: &mut StdRng, b: &mut Vec<u8>) {
    match rng.gen_range(0..8) {
        0 => {
            // flip bits
            for _ in 0..rng.gen_range(1..4) {
                if !b.is_empty() {
                    let i = rng.gen_range(0..b.len());
                    b[i] ^= 1 << rng.gen_range(0..8);
                }
            }
        }
        1 => {
            let n = rng.gen_range(0..=b.len());
            b.truncate(n);
        }
        2 => {
            for _ in 0..rng.gen_range(1..6) {
                b.push(rng.gen());
            }
        }
        3 => {
            // messageLength relations
            if b.len() >= 4 {
                let l = b.len() as i64;
                let v = [l - 2, l - 1, l + 1, l + 2, 33, 34, 0, 65535, 35, 44][rng.gen_range(0..10)].clamp(0, 65535) as u16;
                b[2..4].copy_from_slice(&v.to_be_bytes());
            }
        }
        4 => {
            if !b.is_empty() {
                let i = rng.gen_range(0..b.len());
                b[i] = rng.gen();
            }
        }
        5 => {
            // corrupt a TLV length if there is a suffix
            if b.len() > 70 {
                let i = rng.gen_range(64..b.len());
                b[i] = b[i].wrapping_add(1);
            }
        }
        6 => {
            if b.len() >= 4 {
                // consistent truncation: shorten and fix messageLength
                let n = rng.gen_range(0..=b.len());
                b.truncate(n);
                if b.len() >= 4 {
                    let l = b.len() as u16;
                    b[2..4].copy_from_slice(&l.to_be_bytes());
                }
            }
        }
        _ => {
            if !b.is_empty() {
                b[0] = (b[0] & 0xf0) | rng.gen_range(0..16);
            }
        }
    }
}

/// The one path on which a decoded TLV is written again field by field (everything else copies
/// the validated TLV suffix): an Announce TLV that a boundary clock forwards from its slave port
/// to a master port. The TLVs on the emitted Announce must carry the type, length and value that
/// came in, as read by the reference codec.
pub fn forwarded_tlv_reencode(rep: &mut Report, tlvs_in: &[Tlv], seed: u64) {
    use crate::drive::*;
    use statime::observability::port::PortState;
    let replay = json!({"forward": tlvs_in.iter().map(|t| json!({"ty": t.ty, "value": hex(&t.value)})).collect::<Vec<_>>(), "seed": seed});
    let mut b = Build::new(0x50);
    b.n_ports = 2;
    b.path_trace = false;
    b.tlv = TlvMode::Scripted;
    b.seed = seed;
    let Ok(built) = b.build() else { return };
    let mut node = built.node;
    macro_rules! call {
        ($p:expr, $c:expr) => {
            match node.call($p, $c) {
                Ok(a) => a,
                Err(p) => {
                    rep.violation(&format!("C04|forward|panic|{}|{}", p.site(), p.class()), &p.describe(), replay.clone());
                    return;
                }
            }
        };
    }
    call!(1, Call::AnnounceReceiptTimer);
    let mut parent = Remote::new(0x10, 1);
    parent.body.gm_priority1 = 10;
    for _ in 0..2 {
        call!(0, Call::GeneralRx(parent.next_announce().encode()));
    }
    if node.bmca().is_err() || node.port_state(0) != PortState::Slave || node.port_state(1) != PortState::Master {
        return;
    }
    let mut m = parent.next_announce();
    m.tlvs = tlvs_in.to_vec();
    let acts = call!(0, Call::GeneralRx(m.encode()));
    let mut n_fwd = 0;
    for a in acts {
        if let Act::ForwardTlv { tlv: Some(t), .. } = a {
            node.forward_tlv(0, t);
            n_fwd += 1;
        }
    }
    let want: Vec<(u16, Vec<u8>)> = tlvs_in.iter().filter(|t| tlv_propagates(t.ty)).map(|t| (t.ty, t.value.clone())).collect();
    rep.ev("forwarding_case");
    if n_fwd != want.len() {
        // which TLVs are forwarded is C15's question; the codec question needs them all
        return;
    }
    let acts = call!(1, Call::AnnounceTimer);
    let mut seen = false;
    for a in acts {
        if let Act::SendGeneral { data, .. } = a {
            let Ok(out) = Msg::decode(&data) else {
                rep.violation("C04|forward|emitted-announce-undecodable", &format!("Announce carrying forwarded TLVs is not decodable by the reference codec: {}", hex(&data)), replay.clone());
                return;
            };
            if out.hdr.msg_type != T_ANNOUNCE {
                continue;
            }
            seen = true;
            let got: Vec<(u16, Vec<u8>)> = out.tlvs.iter().map(|t| (t.ty, t.value.clone())).collect();
            rep.evn("forwarded_tlv_reencoded", want.len() as u64);
            if got != want {
                let d = got.iter().zip(want.iter()).find(|(g, w)| g != w);
                let what = match d {
                    Some((g, w)) if g.0 != w.0 => format!("tlvType {:#06x} re-encoded as {:#06x}", w.0, g.0),
                    Some((g, w)) if g.1.len() != w.1.len() => format!("tlvType {:#06x}: lengthField {} re-encoded as {}", w.0, w.1.len(), g.1.len()),
                    Some((_, w)) => format!("tlvType {:#06x}: value changed", w.0),
                    None => format!("{} TLVs in, {} out", want.len(), got.len()),
                };
                rep.violation("C04|forward|tlv-reencode", &format!("TLV forwarded by a boundary clock: {what}"), replay.clone());
            }
            if out.trailing.len() > 0 || data.len() != 64 + got.iter().map(|g| 4 + g.1.len()).sum::<usize>() {
                rep.violation("C04|forward|length", &format!("emitted Announce has {} bytes for {} TLV bytes", data.len(), got.iter().map(|g| 4 + g.1.len()).sum::<usize>()), replay.clone());
            }
        }
    }
    if !seen {
        rep.ev("forwarding_no_announce");
    }
}

pub fn run(rep: &mut Report, tier: &str, seed: u64, shard: (u32, u32), replay: Option<&str>) {
    rep.rule = "inputs = reference-codec encodings of every message type with swept/lattice/random field values and TLV layouts, their mutations (bit flips, truncations, messageLength relations, TLV length corruption) and pure random bytes; distinct = distinct byte strings; non-trivial = accepted by the decoder (oracle clauses 2-4 ran)".into();
    rep.require(&["accepted", "rejected", "reencoded", "refcodec_compared", "debug_compared", "tail_pairs", "message_longer_than_1024_octets", "prefilter_called", "every_one_octet_buffer"]);
    for t in ALL_TYPES {
        rep.required_events.push(format!("accepted_{}", type_name(t)));
    }
    let mut rng = StdRng::seed_from_u64(seed ^ 0xc04 ^ ((shard.0 as u64) << 40));
    if let Some(path) = replay {
        let v: serde_json::Value = serde_json::from_str(&std::fs::read_to_string(path).unwrap()).unwrap();
        if let Some(f) = v["case"]["forward"].as_array() {
            let tlvs: Vec<Tlv> = f.iter().map(|t| Tlv::new(t["ty"].as_u64().unwrap() as u16, unhex(t["value"].as_str().unwrap()))).collect();
            forwarded_tlv_reencode(rep, &tlvs, v["case"]["seed"].as_u64().unwrap_or(0));
            println!("replay of a forwarding case: {} finding(s)", rep.findings.len());
            for f in rep.findings.values() {
                println!("  {}", f.what);
            }
            return;
        }
        let bytes = unhex(v["case"]["bytes"].as_str().unwrap());
        check_input(rep, &bytes, "replay", &mut rng);
        println!("replay of {} bytes: {} finding(s)", bytes.len(), rep.findings.len());
        for f in rep.findings.values() {
            println!("  {}", f.what);
        }
        return;
    }
    let mut nontrivial = 0u64;
    let mut one = |rep: &mut Report, b: &[u8], label: &str, rng: &mut StdRng| {
        let o = check_input(rep, b, label, rng);
        rep.evaluations += 1;
        if o.accepted {
            nontrivial += 1;
            rep.distinct_case(&hex(b));
        }
    };
    if shard.0 == 0 && tier != "miri" {
        // systematic sweeps: every type x every value of each 8/16-bit header field, every flag bit pattern
        for t in ALL_TYPES {
            let base = rand_msg(&mut rng, t);
            let mut base = Msg { tlvs: vec![], ..base };
            base.hdr.version = 2;
            for v in 0..=255u8 {
                let mut m = base.clone();
                m.hdr.domain = v;
                one(rep, &m.encode(), "sweep-domain", &mut rng);
                let mut m = base.clone();
                m.hdr.minor_sdo = v;
                one(rep, &m.encode(), "sweep-minorSdo", &mut rng);
                let mut m = base.clone();
                m.hdr.log_interval = v as i8;
                one(rep, &m.encode(), "sweep-logInterval", &mut rng);
                let mut m = base.clone();
                m.hdr.control = Some(v);
                one(rep, &m.encode(), "sweep-control", &mut rng);
                let mut m = base.clone();
                m.hdr.major_sdo = v >> 4;
                m.hdr.minor_version = v & 0xf;
                one(rep, &m.encode(), "sweep-nibbles", &mut rng);
                let mut m = base.clone();
                m.hdr.version = v & 0xf;
                one(rep, &m.encode(), "sweep-version", &mut rng);
                if let Body::Announce(a) = &base.body {
                    for k in 0..5 {
                        let mut a2 = a.clone();
                        match k {
                            0 => a2.gm_priority1 = v,
                            1 => a2.gm_class = v,
                            2 => a2.gm_accuracy = v,
                            3 => a2.gm_priority2 = v,
                            _ => a2.time_source = v,
                        }
                        let m = Msg { body: Body::Announce(a2), ..base.clone() };
                        one(rep, &m.encode(), "sweep-announce-u8", &mut rng);
                    }
                }
                if let Body::Management { target, .. } = &base.body {
                    for k in 0..3 {
                        let (mut s, mut h2, mut ac) = (1u8, 2u8, 3u8);
                        match k {
                            0 => s = v,
                            1 => h2 = v,
                            _ => ac = v,
                        }
                        let m = Msg { body: Body::Management { target: *target, starting_hops: s, hops: h2, action: ac, reserved: 0 }, ..base.clone() };
                        one(rep, &m.encode(), "sweep-management-u8", &mut rng);
                    }
                }
            }
            // all 2^12 defined flag bit combinations
            let bits: [(usize, u8); 12] = [F_ALT_MASTER, F_TWO_STEP, F_UNICAST, F_PROFILE1, F_PROFILE2, F_LEAP61, F_LEAP59, F_UTC_VALID, F_PTP_TIMESCALE, F_TIME_TRACEABLE, F_FREQ_TRACEABLE, F_SYNC_UNCERTAIN];
            let step = if tier == "thorough" || t == T_ANNOUNCE { 1 } else { 13 };
            let mut c = 0u32;
            while c < 4096 {
                let mut m = base.clone();
                m.hdr.flags = [0, 0];
                for (i, f) in bits.iter().enumerate() {
                    m.hdr.set_flag(*f, c & (1 << i) != 0);
                }
                one(rep, &m.encode(), "sweep-flags", &mut rng);
                c += step;
            }
            // 16-bit fields
            let step16 = if tier == "thorough" { 1 } else { 97 };
            let mut v = 0u32;
            while v < 65536 {
                let mut m = base.clone();
                m.hdr.seq = v as u16;
                one(rep, &m.encode(), "sweep-seq", &mut rng);
                let mut m = base.clone();
                m.hdr.src.port = v as u16;
                one(rep, &m.encode(), "sweep-srcport", &mut rng);
                if let Body::Announce(a) = &base.body {
                    let mut a2 = a.clone();
                    a2.steps_removed = v as u16;
                    a2.gm_variance = (v as u16).rotate_left(3);
                    a2.utc_offset = v as u16 as i16;
                    let m = Msg { body: Body::Announce(a2), ..base.clone() };
                    one(rep, &m.encode(), "sweep-announce-u16", &mut rng);
                }
                v += step16;
            }
            // every messageLength vs buffer relation on a message with one TLV
            let mut m = base.clone();
            m.tlvs = vec![Tlv::new(TLV_ORG_EXT_PROP, vec![1, 2, 3, 4, 5, 6])];
            let enc = m.encode();
            for dl in [-40i64, -11, -10, -4, -3, -2, -1, 0, 1, 2, 3, 4] {
                for db in [-3i64, -2, -1, 0, 1, 2, 40] {
                    let mut b = enc.clone();
                    let l = (enc.len() as i64 + dl).clamp(0, 65535) as u16;
                    b[2..4].copy_from_slice(&l.to_be_bytes());
                    let nb = (enc.len() as i64 + db).max(0) as usize;
                    b.resize(nb, 0xa5);
                    one(rep, &b, "length-relations", &mut rng);
                }
            }
            for l in [0u16, 1, 33, 34, 35, 65535] {
                let mut b = enc.clone();
                b[2..4].copy_from_slice(&l.to_be_bytes());
                one(rep, &b, "length-abs", &mut rng);
            }
            // lengthField boundary values of a (necessarily truncated) TLV, first in the suffix and
            // after a complete TLV: the only correct answer is an error
            for lf in [0x7ffeu16, 0x7fff, 0x8000, 0xfbfe, 0xfffa, 0xfffb, 0xfffc, 0xfffd, 0xfffe, 0xffff] {
                for present in [0usize, 2, 6, 16] {
                    for lead in [false, true] {
                        let mut m = base.clone();
                        m.tlvs = vec![];
                        if lead {
                            m.tlvs.push(Tlv::new(TLV_ORG_EXT_PROP, vec![7; 6]));
                        }
                        m.tlvs.push(Tlv { ty: 0x4000, value: vec![0x5a; present], len_override: Some(lf) });
                        one(rep, &m.encode(), "tlv-length-boundary", &mut rng);
                    }
                }
            }
            // TLV layouts: every type class x lengths 0/odd/even/huge/truncated, trailing 1..4 bytes
            for ty in [0x0000u16, 0x0001, 0x0003, 0x0008, 0x0009, 0x2000, 0x2004, 0x3fff, 0x4000, 0x4001, 0x7fff, 0x8000, 0x8008, 0xffff] {
                for len in [0usize, 1, 2, 3, 4, 9, 10, 100, 101, 900] {
                    let mut m = base.clone();
                    m.tlvs = vec![Tlv::new(ty, vec![0x5a; len])];
                    one(rep, &m.encode(), "tlv-layout", &mut rng);
                    m.tlvs.push(Tlv::new(TLV_PAD, vec![0; 2]));
                    one(rep, &m.encode(), "tlv-layout-2", &mut rng);
                    for trail in 1..=4usize {
                        let mut m2 = base.clone();
                        m2.tlvs = vec![Tlv::new(ty, vec![0x5a; len])];
                        m2.trailing = vec![0; trail];
                        one(rep, &m2.encode(), "tlv-trailing", &mut rng);
                    }
                    // lying length field
                    let mut m3 = base.clone();
                    m3.tlvs = vec![Tlv { ty, value: vec![0x5a; len], len_override: Some((len as u16).wrapping_add(2)) }];
                    one(rep, &m3.encode(), "tlv-length-lies", &mut rng);
                }
            }
        }
    }
    if shard.0 == 0 {
        // every buffer of 0, 1 and 2 octets (the second octet carries versionPTP)
        one(rep, &[], "tiny", &mut rng);
        for a in 0..=255u8 {
            one(rep, &[a], "tiny", &mut rng);
            for b2 in [0u8, 1, 2, 0x12, 0x21, 0xf2, 0xff] {
                one(rep, &[a, b2], "tiny", &mut rng);
            }
        }
        rep.ev("every_one_octet_buffer");
    }
    if shard.0 == 0 && tier != "miri" {
        // messages longer than the 1024 octets statime itself ever sends: a TLV boundary at and
        // around octet 1024 followed by further TLVs, complete and cut short
        for t in ALL_TYPES {
            let mut base = rand_msg(&mut rng, t);
            base.tlvs = vec![];
            base.trailing = vec![];
            base.hdr.length = None;
            let body_len = base.encode().len();
            for delta in [-8i64, -4, -2, 0, 2, 4, 8, 200] {
                for second in [0usize, 2, 6, 40, 300] {
                    let first = (1024 + delta - body_len as i64 - 4).max(0) as usize & !1;
                    let mut m = base.clone();
                    m.tlvs = vec![Tlv::new(0x2004, (0..first).map(|i| i as u8).collect()), Tlv::new(0x4002, vec![0xab; second]), Tlv::new(0x8000, vec![1, 2, 3, 4, 5, 6])];
                    let b = m.encode();
                    one(rep, &b, "longer-than-1024", &mut rng);
                    rep.ev("message_longer_than_1024_octets");
                    for cut in [1024usize, 1026, b.len() - 1, b.len() - 4] {
                        if cut < b.len() {
                            one(rep, &b[..cut], "longer-than-1024-cut-short", &mut rng);
                        }
                    }
                }
            }
        }
    }
    if tier != "miri" {
        rep.require(&["forwarding_case", "forwarded_tlv_reencoded"]);
        // every tlvType around the edges of the propagating ranges (shard 0), then a seeded
        // stride through all of them, with every small lengthField
        let mut types: Vec<u16> = vec![];
        if shard.0 == 0 {
            types.extend([0x0007u16, 0x0008, 0x0009, 0x000a, 0x2004, 0x3fff, 0x7ffe, 0x7fff, 0x8000, 0x8001]);
            types.extend(0x4000..=0x4020u16);
        }
        let stride = if tier == "thorough" { 7 } else { 257 };
        let mut ty = 0x4000u32 + (seed as u32 + shard.0 * 31) % stride;
        while ty <= 0x7fff {
            types.push(ty as u16);
            ty += stride;
        }
        for (i, ty) in types.iter().enumerate() {
            let len = if *ty == 0x4000 { 6 + 2 * (i % 20) } else { 2 * (i % 24) };
            let mut tl = vec![Tlv::new(*ty, (0..len).map(|_| rng.gen()).collect())];
            if i % 3 == 0 {
                let t2 = [0x4000u16, 0x4001, 0x0009, 0x8000, 0x0003, 0x7fff][rng.gen_range(0..6)];
                let l2 = 6 + 2 * rng.gen_range(0..10usize);
                let second = Tlv::new(t2, (0..l2).map(|_| rng.gen()).collect());
                if rng.gen() {
                    tl.push(second);
                } else {
                    tl.insert(0, second);
                }
            }
            forwarded_tlv_reencode(rep, &tl, rng.gen());
            rep.evaluations += 1;
        }
    }
    let n: u64 = if tier == "miri" { 400 } else if tier == "thorough" { 6_000_000 } else { 150_000 };
    let budget = Budget::new(n, if tier == "thorough" { 600.0 } else { 25.0 });
    let mut i = 0u64;
    while budget.left(i) {
        i += 1;
        let t = ALL_TYPES[rng.gen_range(0..ALL_TYPES.len())];
        let m = rand_msg(&mut rng, t);
        let mut b = m.encode();
        let label = match rng.gen_range(0..10) {
            0..=4 => "canonical",
            5..=8 => {
                let k = rng.gen_range(1..3);
                for _ in 0..k {
                    mutate(&mut rng, &mut b);
                }
                "mutated"
            }
            _ => {
                let n = [0usize, 1, 2, 33, 34, 44, 64, 100, 1024, 2048][rng.gen_range(0..10)];
                b = (0..n).map(|_| rng.gen()).collect();
                if b.len() > 4 && rng.gen_bool(0.7) {
                    b[1] = (b[1] & 0xf0) | 2;
                    let l = (b.len() as u16).to_be_bytes();
                    b[2] = l[0];
                    b[3] = l[1];
                    b[0] = (b[0] & 0xf0) | ALL_TYPES[rng.gen_range(0..10)];
                }
                "random"
            }
        };
        if i <= 3 {
            rep.sample(json!({"label": label, "bytes": hex(&b[..b.len().min(96)]), "len": b.len()}));
        }
        one(rep, &b, label, &mut rng);
    }
    rep.extra.insert("accepted_inputs".into(), json!(nontrivial));
}
