//! C15 - boundary clocks propagate TLVs faithfully and break path-trace loops.
//! Oracle: per master port a FIFO shadow queue of uniquely tagged TLVs, independent room
//! accounting, reference decoding of every emitted Announce, snapshot comparison for loops.

use std::collections::VecDeque;

use rand::rngs::StdRng;
use rand::{Rng, SeedableRng};
use serde_json::json;
use statime::fuzz::FuzzMessage;
use statime::observability::port::PortState;

use crate::drive::*;
use crate::node::*;
use crate::refcodec::*;
use crate::report::*;

#[derive(Clone, Debug, serde::Serialize, serde::Deserialize)]
pub struct Case {
    pub seed: u64,
    pub n_master_ports: usize,
    pub path_trace: bool,
    /// true = the daemon's TlvForwarder, false = contract-honouring scripted provider
    pub real_forwarder: bool,
    pub steps: usize,
    /// 0 mixed, 1 sizes around the room, 2 oversize-first-then-small, 3 burst (forwarder lag), 4 long paths
    pub family: u8,
}

#[derive(Clone, Debug)]
struct Item {
    ty: u16,
    value: Vec<u8>,
    from_parent: bool,
}

impl Item {
    fn size(&self) -> usize {
        4 + self.value.len()
    }
}

fn tagged_value(rng: &mut StdRng, id: &mut u32, len: usize) -> Vec<u8> {
    *id += 1;
    let mut v = vec![0u8; len];
    for (i, b) in v.iter_mut().enumerate() {
        *b = (i as u8).wrapping_mul(31).wrapping_add(*id as u8);
    }
    let tag = id.to_be_bytes();
    for (i, t) in tag.iter().enumerate() {
        if i < v.len() {
            v[i] = *t;
        }
    }
    let _ = rng;
    v
}

pub fn run_case(rep: &mut Report, case: &Case, verbose: bool) {
    let replay = serde_json::to_value(case).unwrap();
    let mut rng = StdRng::seed_from_u64(case.seed);
    let n_ports = 1 + case.n_master_ports;
    let mut b = Build::new(0x50);
    b.n_ports = n_ports;
    b.path_trace = case.path_trace;
    b.tlv = if case.real_forwarder { TlvMode::Real } else { TlvMode::Scripted };
    b.aml = Aml::List(vec![clock_id(0x10), clock_id(0x20)]);
    b.seed = case.seed;
    let Ok(built) = b.build() else { return };
    let mut node = built.node;
    let own_id = clock_id(0x50).0;
    macro_rules! call {
        ($p:expr, $c:expr, $what:expr) => {
            match node.call($p, $c) {
                Ok(a) => a,
                Err(p) => {
                    rep.violation(&format!("C15|panic|{}|{}", p.site(), p.class()), &format!("{}: {}", $what, p.describe()), replay.clone());
                    return;
                }
            }
        };
    }
    for p in 1..n_ports {
        call!(p, Call::AnnounceReceiptTimer, "receipt timer");
    }
    let mut parent = Remote::new(0x10, 1);
    parent.body.gm_priority1 = 10;
    let mut other = Remote::new(0x20, 1);
    other.body.gm_priority1 = 200;
    let mut unacceptable = Remote::new(0x30, 1);
    unacceptable.body.gm_priority1 = 1;
    // another port of the parent's own clock (same grandmaster, loses the tie-break on its port number):
    // an acceptable sender, but not the parent
    let mut sibling = Remote::new(0x10, 2);
    sibling.body.gm_priority1 = 10;
    let const_path_len = if case.family == 4 { [0usize, 1, 100, 117, 118, 119, 120, 127, 128, 129, 200][(case.seed % 11) as usize] } else { (case.seed % 6) as usize };
    let path_entry = |i: usize| [0xa0u8, 0, 0, 0xee, (i >> 8) as u8, i as u8, 1, 1];
    for _ in 0..2 {
        let mut m = parent.next_announce();
        if case.path_trace {
            let mut v = vec![];
            for i in 0..const_path_len {
                v.extend_from_slice(&path_entry(i));
            }
            m.tlvs = vec![Tlv::new(TLV_PATH_TRACE, v)];
        }
        call!(0, Call::GeneralRx(m.encode()), "parent announce");
    }
    if node.bmca().is_err() || node.port_state(0) != PortState::Slave {
        rep.ev("scenario_not_established");
        return;
    }
    // the BMCA's S1 decision carries no TLVs: the instance learns the parent's path from the first
    // Announce it receives from it as a slave
    if case.path_trace {
        let mut m = parent.next_announce();
        let mut v = vec![];
        for i in 0..const_path_len {
            v.extend_from_slice(&path_entry(i));
        }
        m.tlvs = vec![Tlv::new(TLV_PATH_TRACE, v)];
        let acts = call!(0, Call::GeneralRx(m.encode()), "parent announce");
        for a in acts {
            if let Act::ForwardTlv { tlv: Some(t), .. } = a {
                node.forward_tlv(0, t);
            }
        }
    }
    let mut queues: Vec<VecDeque<Item>> = (0..n_ports).map(|_| VecDeque::new()).collect();
    if case.path_trace {
        // that PATH_TRACE TLV went to the forwarder like any propagating TLV (and is dropped at send)
        let mut v = vec![];
        for i in 0..const_path_len {
            v.extend_from_slice(&path_entry(i));
        }
        let room = 1024usize - 64;
        let pt = 4 + 8 * (const_path_len.min(128) + 1);
        let max_room = if room > pt { room - pt } else { room };
        for (pi, q) in queues.iter_mut().enumerate() {
            if !case.real_forwarder && pi == 0 {
                continue;
            }
            if 4 + v.len() <= max_room {
                q.push_back(Item { ty: TLV_PATH_TRACE, value: v.clone(), from_parent: true });
            }
        }
    }
    let mut lagged = vec![false; n_ports];
    let mut next_id: u32 = case.seed as u32 & 0xffff;
    // the path the instance holds: path of the last parent Announce that carried a PATH_TRACE TLV
    let mut held_path: Option<Vec<[u8; 8]>> = if case.path_trace { Some((0..const_path_len).take(128).map(path_entry).collect()) } else { None };
    let prop_types = [TLV_ALT_TIME_OFFSET, TLV_ORG_EXT_PROP, 0x4001, 0x7f00, 0x7fff];
    let nonprop_types = [0x0001u16, TLV_ORG_EXT, TLV_ORG_EXT_NOPROP, TLV_PAD, 0x2004, 0x8001, 0x0000];
    for step in 0..case.steps {
        let what = match case.family {
            // bursts of ~180 parent Announces without any emission, then a round of emissions
            3 => {
                if step % 200 >= 180 {
                    2
                } else {
                    0
                }
            }
            _ => rng.gen_range(0..3),
        };
        if what < 2 || step == 0 {
            // ---------------- an Announce arrives on the slave port
            let sender = match rng.gen_range(0..10) {
                0..=5 => 0,
                6 => 3,
                7 | 8 => 1,
                _ => 2,
            };
            let sender = if case.family == 3 { 0 } else { sender };
            let mut tlvs: Vec<Tlv> = vec![];
            let pt_overhead = |held: &Option<Vec<[u8; 8]>>| if case.path_trace { 4 + 8 * (held.as_ref().map(|p| p.len()).unwrap_or(0) + 1) } else { 0 };
            // optional PATH_TRACE TLV
            let mut new_path: Option<Vec<[u8; 8]>> = None;
            let mut looping = false;
            if rng.gen_bool(if case.family == 4 { 0.9 } else if case.path_trace { 1.0 } else { 0.4 }) {
                // the path length is constant within a case (the long-path family draws it from
                // 0..200): a TLV that fitted when it was received but no longer fits
                // because the path grew meanwhile is outside what is claimed (DESIGN C15 limits)
                let n = const_path_len;
                let mut path: Vec<[u8; 8]> = (0..n).map(path_entry).collect();
                if sender == 0 && rng.gen_bool(0.15) && n > 0 {
                    let k = rng.gen_range(0..n);
                    path[k] = own_id;
                    looping = case.path_trace;
                }
                let mut v = vec![];
                for e in &path {
                    v.extend_from_slice(e);
                }
                tlvs.push(Tlv::new(TLV_PATH_TRACE, v));
                new_path = Some(path);
            }
            let n_tlv = match case.family {
                3 => 1 + rng.gen_range(0..2) + if step % 3 == 0 { 0 } else { 0 },
                2 => 1,
                _ => rng.gen_range(0..=5),
            };
            let room_now = (1024usize - 64).saturating_sub(pt_overhead(&held_path));
            let mut budget_bytes = 2048usize - 64 - tlvs.iter().map(|t| t.wire_size()).sum::<usize>();
            for k in 0..n_tlv {
                let propagating = case.family != 0 || rng.gen_bool(0.7);
                let ty = if propagating { prop_types[rng.gen_range(0..prop_types.len())] } else { nonprop_types[rng.gen_range(0..nonprop_types.len())] };
                let len = match case.family {
                    1 => (room_now as i64 - 4 + [-4i64, -2, 0, 2, 4, -(room_now as i64) / 2][rng.gen_range(0..6)]).max(0) as usize,
                    2 => {
                        if step == 0 && k == 0 {
                            [1000usize, 1100, room_now + 2][rng.gen_range(0..3)]
                        } else {
                            20
                        }
                    }
                    3 => 4 + rng.gen_range(0..8) * 2, // >= 4 bytes so that every value carries its unique tag
                    4 => rng.gen_range(0..20) * 2,
                    _ => rng.gen_range(0..=550) * 2,
                };
                let len = len & !1;
                if 4 + len > budget_bytes {
                    continue;
                }
                budget_bytes -= 4 + len;
                tlvs.push(Tlv::new(ty, tagged_value(&mut rng, &mut next_id, len)));
            }
            let r = match sender {
                0 => &mut parent,
                1 => &mut other,
                3 => &mut sibling,
                _ => &mut unacceptable,
            };
            let mut m = r.next_announce();
            m.tlvs = tlvs.clone();
            if looping && sender == 0 && rng.gen_bool(0.4) {
                // a loop is a loop whatever the looping Announce says about its distance
                if let Body::Announce(ref mut a) = m.body {
                    a.steps_removed = [254u16, 255, 256, 65535][rng.gen_range(0..4)];
                    rep.ev("looping_announce_with_large_steps_removed");
                }
            }
            let bytes = m.encode();
            if bytes.len() > 2048 {
                continue;
            }
            let snap_before = node.snapshot().ok();
            // frames the library's parser rejects are simply dropped (rejection is always allowed)
            let parsed = FuzzMessage::deserialize(&bytes).is_ok();
            let acts = call!(0, Call::GeneralRx(bytes), "announce with TLVs");
            if !parsed {
                rep.ev("announce_rejected_by_parser");
                if !acts.is_empty() {
                    rep.violation("C15|rejected-frame-has-effect", &format!("step {step}: a frame the parser rejects returned actions"), replay.clone());
                }
                continue;
            }
            rep.ev("announce_delivered");
            rep.ev(["announce_from_parent", "announce_from_other_master", "announce_from_unacceptable", "announce_from_parent_clock_other_port"][sender]);
            let mut forwarded: Vec<String> = vec![];
            let n_acts = acts.len();
            for a in acts {
                if let Act::ForwardTlv { tlv: Some(t), dbg, .. } = a {
                    forwarded.push(dbg);
                    node.forward_tlv(0, t);
                }
            }
            if looping && sender == 0 {
                rep.ev("looping_announce");
                // must be discarded entirely
                if n_acts != 0 {
                    rep.violation("C15|loop|returns-actions", &format!("step {step}: a parent Announce whose PATH_TRACE contains the own identity returned {n_acts} action(s)"), replay.clone());
                }
                if let (Some(bf), Ok(af)) = (snap_before, node.snapshot()) {
                    if bf != af {
                        rep.violation("C15|loop|changes-state", &format!("step {step}: a looping parent Announce changed port states / data sets"), replay.clone());
                    }
                }
                continue;
            }
            if sender == 2 {
                if !forwarded.is_empty() {
                    rep.violation("C15|forward|unacceptable-sender", &format!("step {step}: TLVs of an unacceptable master were forwarded"), replay.clone());
                }
                continue;
            }
            if sender == 0 {
                if let Some(p) = new_path.clone() {
                    held_path = Some(p.into_iter().take(128).collect());
                }
            }
            // which TLVs must have been handed to the forwarder: the propagating ones that fit into
            // an otherwise empty Announce of this instance (with its PATH_TRACE TLV), in order
            let max_room = {
                let room = 1024usize - 64;
                let pt = pt_overhead(&held_path);
                if pt > 0 && room > pt {
                    room - pt
                } else {
                    room
                }
            };
            let expect_fwd: Vec<&Tlv> = tlvs.iter().filter(|t| tlv_propagates(t.ty) && t.wire_size() <= max_room).collect();
            if verbose {
                eprintln!("  rx from {sender}: tlvs {:?} max_room {max_room} forwarded {}", tlvs.iter().map(|t| (t.ty, t.value.len())).collect::<Vec<_>>(), forwarded.len());
            }
            for t in tlvs.iter().filter(|t| tlv_propagates(t.ty) && t.wire_size() > max_room) {
                rep.ev("oversize_tlv_not_forwarded");
                let _ = t;
            }
            if forwarded.len() != expect_fwd.len() {
                rep.violation("C15|forward|count", &format!("step {step}: {} ForwardTLV actions for {} propagating TLVs", forwarded.len(), expect_fwd.len()), replay.clone());
            }
            for (pi, q) in queues.iter_mut().enumerate() {
                if !case.real_forwarder && pi == 0 {
                    continue; // scripted mode feeds the other ports only
                }
                for t in &expect_fwd {
                    q.push_back(Item { ty: t.ty, value: t.value.clone(), from_parent: sender == 0 });
                }
                if q.len() > 100 {
                    lagged[pi] = true;
                }
            }
        } else {
            // ---------------- announce timer on a master port
            let p = rng.gen_range(1..n_ports);
            if node.port_state(p) != PortState::Master {
                continue;
            }
            let acts = call!(p, Call::AnnounceTimer, "announce timer");
            let mut frame = None;
            for a in &acts {
                if let Act::SendGeneral { data, .. } = a {
                    frame = Some(data.clone());
                }
            }
            let Some(data) = frame else {
                rep.violation("C15|emit|not-sent", &format!("step {step}: master port {p} emitted no Announce on its announce timer"), replay.clone());
                continue;
            };
            rep.ev("announce_emitted");
            if data.len() > 1024 {
                rep.violation("C15|emit|too-long", &format!("step {step}: Announce of {} bytes", data.len()), replay.clone());
            }
            if FuzzMessage::deserialize(&data).is_err() {
                rep.violation("C15|emit|own-parser-rejects", &format!("step {step}: emitted Announce rejected by the library's own parser"), replay.clone());
            }
            let Ok(m) = Msg::decode(&data) else {
                rep.violation("C15|emit|undecodable", &format!("step {step}: reference codec cannot decode the emitted Announce"), replay.clone());
                continue;
            };
            let mut out = m.tlvs.clone();
            // PATH_TRACE
            let mut pt_size = 0;
            if case.path_trace {
                let held = held_path.clone().unwrap_or_default();
                let want_len = held.len() + 1;
                let fits = 4 + 8 * want_len < 1024 - 64 && want_len <= 128;
                let got_pt = out.first().filter(|t| t.ty == TLV_PATH_TRACE).cloned();
                if fits {
                    rep.ev("path_trace_checked");
                    let mut want = vec![];
                    for e in &held {
                        want.extend_from_slice(e);
                    }
                    want.extend_from_slice(&own_id);
                    match &got_pt {
                        Some(t) if t.value == want => {}
                        Some(t) => rep.violation("C15|path-trace|wrong", &format!("step {step}: emitted PATH_TRACE has {} entries, expected the parent's {} + own identity", t.value.len() / 8, held.len()), replay.clone()),
                        None => rep.violation("C15|path-trace|missing", &format!("step {step}: no PATH_TRACE TLV although the path ({} entries + own) fits", held.len()), replay.clone()),
                    }
                } else {
                    rep.observe("path too long to be extended and forwarded: PATH_TRACE omitted");
                }
                if let Some(t) = got_pt {
                    pt_size = t.wire_size();
                    out.remove(0);
                }
            }
            // forwarded TLVs
            let mut room = (1024usize - 64).saturating_sub(pt_size);
            let q = &mut queues[p];
            let mut expect: Vec<Item> = vec![];
            let mut blocked_by_oversize = false;
            while let Some(head) = q.front() {
                if head.size() <= room {
                    let h = q.pop_front().unwrap();
                    let eligible = h.from_parent && !(case.path_trace && h.ty == TLV_PATH_TRACE);
                    if eligible {
                        room -= h.size();
                        expect.push(h);
                    }
                } else {
                    if head.size() > (1024 - 64usize).saturating_sub(pt_size) {
                        blocked_by_oversize = q.len() > 1;
                    }
                    break;
                }
            }
            if verbose {
                eprintln!("  emit port {p}: pt_size {pt_size} got {:?} want {:?} rest-of-queue {:?}", out.iter().map(|t| (t.ty, t.value.len())).collect::<Vec<_>>(), expect.iter().map(|t| (t.ty, t.value.len())).collect::<Vec<_>>(), q.iter().map(|t| (t.ty, t.value.len(), t.from_parent)).collect::<Vec<_>>());
            }
            let got: Vec<(u16, Vec<u8>)> = out.iter().map(|t| (t.ty, t.value.clone())).collect();
            let want: Vec<(u16, Vec<u8>)> = expect.iter().map(|t| (t.ty, t.value.clone())).collect();
            rep.ev("forwarded_suffix_checked");
            rep.evn("forwarded_tlvs_expected", want.len() as u64);
            if lagged[p] {
                // after forwarder lag the oldest TLVs are legitimately lost; order, uniqueness and
                // integrity must survive: the output must be a subsequence of what was eligible
                rep.ev("checked_under_lag");
                let mut combined: Vec<Item> = expect.clone();
                combined.extend(q.iter().cloned());
                let mut i = 0;
                let mut ok = true;
                for g in &got {
                    match combined[i..].iter().position(|w| w.from_parent && (w.ty, &w.value) == (g.0, &g.1)) {
                        Some(k) => i += k + 1,
                        None => {
                            if verbose {
                                eprintln!("  LAG MISMATCH: emitted ({}, len {}) not found after position {i} of {}", g.0, g.1.len(), combined.len());
                            }
                            rep.violation("C15|forward|lag-order-or-integrity", &format!("step {step}: after forwarder lag port {p} emitted a TLV that is out of order, duplicated or altered"), replay.clone());
                            ok = false;
                            break;
                        }
                    }
                }
                // resynchronise the shadow with what was actually sent: everything up to the last
                // emitted TLV is gone (sent, dropped as ineligible, or lost to the lag)
                q.clear();
                if ok {
                    q.extend(combined.into_iter().skip(i));
                }
            } else if got != want {
                let class = if got.len() < want.len() {
                    "missing"
                } else if got.len() > want.len() {
                    "extra"
                } else {
                    "altered-or-reordered"
                };
                rep.violation(
                    &format!("C15|forward|{class}"),
                    &format!("step {step}: port {p} appended {} TLV(s) {:?}, expected {} {:?}", got.len(), got.iter().map(|g| (g.0, g.1.len())).collect::<Vec<_>>(), want.len(), want.iter().map(|g| (g.0, g.1.len())).collect::<Vec<_>>()),
                    replay.clone(),
                );
                // resynchronise
                q.clear();
                blocked_by_oversize = false;
            }
            if blocked_by_oversize {
                rep.ev("oversize_head");
                rep.violation("C15|forward|blocked-by-oversize-tlv", &format!("step {step}: a TLV that can never fit into an Announce of port {p} sits at the head of its queue and blocks {} later TLV(s)", q.len().saturating_sub(1)), replay.clone());
                q.pop_front();
            }
        }
        if verbose {
            eprintln!("step {step}: queues {:?}", queues.iter().map(|q| q.len()).collect::<Vec<_>>());
        }
    }
    // ---------------- the instance becomes grandmaster by a BMCA decision taken while the port is
    // still slave (its own clock got better than the parent's grandmaster): there is no parent
    // path any more, emitted Announces carry the own identity only
    if case.path_trace && case.seed % 3 == 0 && held_path.as_ref().map(|p| !p.is_empty()).unwrap_or(false) {
        let q = statime::config::ClockQuality { clock_class: 6, clock_accuracy: statime::config::ClockAccuracy::NS25, offset_scaled_log_variance: 0 };
        if node.set_clock_quality(q).is_err() || node.bmca().is_err() {
            return;
        }
        if node.port_state(0) == PortState::Slave {
            rep.ev("takeover_not_reached");
            return;
        }
        rep.ev("grandmaster_by_bmca_from_slave");
        let own = clock_id(0x50).0;
        for p in 0..n_ports {
            if node.port_state(p) != PortState::Master {
                continue;
            }
            let Ok(acts) = node.call(p, Call::AnnounceTimer) else { return };
            for a in acts {
                let Act::SendGeneral { data, .. } = a else { continue };
                let Ok(m) = Msg::decode(&data) else { continue };
                if m.hdr.msg_type != T_ANNOUNCE {
                    continue;
                }
                rep.ev("path_trace_checked");
                match m.tlvs.iter().find(|t| t.ty == TLV_PATH_TRACE) {
                    Some(t) if t.value == own.to_vec() => {}
                    Some(t) => rep.violation("C15|path-trace|stale-parent-path-as-grandmaster", &format!("the instance became grandmaster by a BMCA decision, but port {p} still announces a path of {} entries (the former parent's path + own identity)", t.value.len() / 8), replay.clone()),
                    None => rep.violation("C15|path-trace|missing", &format!("grandmaster: no PATH_TRACE TLV on port {p}"), replay.clone()),
                }
            }
        }
    }
}

pub fn run(rep: &mut Report, tier: &str, seed: u64, shard: (u32, u32), replay: Option<&str>) {
    rep.rule = "boundary clocks (one slave port, 1-3 master ports) over the daemon's TlvForwarder (one duplicate() per port) or a contract-honouring scripted provider; Announces from the parent / another acceptable master / an unacceptable one carrying 0-6 uniquely tagged TLVs of propagating and non-propagating types, value lengths every even size 0..1100, sizes equal to / just above / just below the remaining room, oversize-first-then-small, bursts beyond the forwarder capacity, PATH_TRACE with 0..200 entries incl. loops; after every emitted Announce the TLV suffix is compared with a FIFO shadow; distinct = distinct cases".into();
    rep.require(&["announce_delivered", "announce_from_parent", "announce_from_other_master", "announce_from_unacceptable", "announce_emitted", "forwarded_suffix_checked", "forwarded_tlvs_expected", "path_trace_checked", "looping_announce", "checked_under_lag"]);
    if let Some(path) = replay {
        let v: serde_json::Value = serde_json::from_str(&std::fs::read_to_string(path).unwrap()).unwrap();
        match serde_json::from_value::<Case>(v["case"].clone()) {
            Ok(c) => run_case(rep, &c, true),
            Err(e) => println!("cannot parse replay: {e}"),
        }
        println!("replay: {} finding(s)", rep.findings.len());
        for f in rep.findings.values() {
            println!("  {}", f.what);
        }
        return;
    }
    let mut rng = StdRng::seed_from_u64(seed ^ 0xc15 ^ ((shard.0 as u64) << 40));
    let n: u64 = if tier == "miri" { 6 } else if tier == "thorough" { 200_000 } else { 4000 };
    let budget = Budget::new(n, if tier == "thorough" { 600.0 } else { 15.0 });
    let mut i = 0;
    while budget.left(i) {
        i += 1;
        let family = [0u8, 0, 1, 1, 2, 3, 4][rng.gen_range(0..7)];
        let case = Case {
            seed: rng.gen(),
            n_master_ports: rng.gen_range(1..=3),
            path_trace: rng.gen_bool(0.5) || family == 4,
            real_forwarder: rng.gen_bool(0.7) || family == 3,
            steps: if tier == "miri" { 12 } else if family == 3 { 400 } else { rng.gen_range(4..40) },
            family,
        };
        if i <= 2 {
            rep.sample(serde_json::to_value(&case).unwrap());
        }
        run_case(rep, &case, false);
        rep.distinct_case(&format!("{case:?}"));
        rep.evaluations += 1;
    }
    let _ = json!(null);
}
