//! Real statime instances and ports behind a uniform, owned, panic-catching host-call API.
//!
//! * `MonMutex`   - `PtpInstanceStateMutex` over the real `std::sync::RwLock` that detects nested
//!                  acquisition on the same thread (C17) and counts acquisitions.
//! * `SimClock`   - clock model with oscillator error, programmed frequency and phase; records
//!                  every control call together with the calling port.
//! * `AnyFilter`  - Kalman / Basic / recording filter behind one concrete type.
//! * `Node`       - one `PtpInstance` + its ports (type-state handled internally); every host call
//!                  is wrapped in `catch_unwind`, actions are copied into owned `Act`s.

use std::cell::RefCell;
use std::collections::VecDeque;
use std::panic::{catch_unwind, AssertUnwindSafe};
use std::sync::atomic::{AtomicU64, Ordering};
use std::sync::{Arc, Mutex, RwLock};

use rand::rngs::StdRng;
use rand::SeedableRng;
use statime::config::{
    AcceptableMasterList, ClockIdentity, ClockQuality, InstanceConfig, PortConfig, TimePropertiesDS,
};
use statime::filters::{BasicFilter, Filter, FilterEstimate, FilterUpdate, KalmanConfiguration, KalmanFilter};
use statime::observability::port::PortState;
use statime::port::{
    ForwardedTLV, ForwardedTLVProvider, InBmca, Measurement, Port, PortAction, PortActionIterator, Running,
    TimestampContext,
};
use statime::time::{Duration, Time};
use statime::{Clock, PtpInstance, PtpInstanceState, PtpInstanceStateMutex};
use statime_linux::tlvforwarder::TlvForwarder;

// ------------------------------------------------------------------------------------------
// panic capture

#[derive(Clone, Debug, PartialEq, Eq, Hash, serde::Serialize)]
pub struct PanicInfo {
    pub message: String,
    pub location: String,
    pub nested_lock: bool,
    /// innermost frame inside /repo (function, file) when the panic fired in a dependency
    pub repo_frame: Option<(String, String)>,
}

impl PanicInfo {
    /// file (repo-relative) + function-independent message class; line numbers are kept out of
    /// signatures so that unrelated edits do not move a known finding.
    pub fn file(&self) -> String {
        let f = self.location.split(':').next().unwrap_or("").to_string();
        if !f.contains("/repo/") {
            if let Some((_, file)) = &self.repo_frame {
                let dep = f.rsplit('/').next().unwrap_or("");
                return format!("{file}(via {dep})");
            }
        }
        if let Some(i) = f.find("/repo/") {
            f[i + 6..].to_string()
        } else if let Some(i) = f.find("registry/src/") {
            // dependency: keep crate-relative path
            let rest = &f[i + 13..];
            rest.splitn(2, '/').nth(1).unwrap_or(rest).to_string()
        } else {
            f
        }
    }
    /// stable identification of the panic site: repo file if it fired in /repo, otherwise the
    /// dependency file (frames inside /repo move with inlining and are kept out of signatures)
    pub fn site(&self) -> String {
        let f = self.location.split(':').next().unwrap_or("").to_string();
        if let Some(i) = f.find("/repo/") {
            f[i + 6..].to_string()
        } else if let Some(i) = f.find("registry/src/") {
            let rest = &f[i + 13..];
            format!("dep:{}", rest.splitn(2, '/').nth(1).unwrap_or(rest))
        } else {
            f
        }
    }
    pub fn describe(&self) -> String {
        match &self.repo_frame {
            Some((func, file)) if !self.location.contains("/repo/") => format!("{} at {} (called from {func} in {file})", self.message, self.location),
            _ => format!("{} at {}", self.message, self.location),
        }
    }
    pub fn class(&self) -> String {
        // strip numbers from the message so the class is stable
        let mut out = String::new();
        let mut last_digit = false;
        for c in self.message.chars() {
            if c.is_ascii_digit() {
                if !last_digit {
                    out.push('#');
                }
                last_digit = true;
            } else {
                out.push(c);
                last_digit = false;
            }
        }
        out.truncate(100);
        out
    }
}

thread_local! {
    static LAST_PANIC: RefCell<Option<(String, String)>> = const { RefCell::new(None) };
    static LAST_BT: RefCell<Option<String>> = const { RefCell::new(None) };
}

pub struct NestedLockMarker;

pub fn install_panic_hook() {
    static ONCE: std::sync::Once = std::sync::Once::new();
    ONCE.call_once(|| {
        let verbose = std::env::var("VP_PANIC_VERBOSE").is_ok();
        let want_bt = std::env::var("VP_PANIC_BT").is_ok();
        std::panic::set_hook(Box::new(move |info| {
            let msg = if let Some(s) = info.payload().downcast_ref::<&str>() {
                s.to_string()
            } else if let Some(s) = info.payload().downcast_ref::<String>() {
                s.clone()
            } else if info.payload().downcast_ref::<NestedLockMarker>().is_some() {
                "NESTED-LOCK".to_string()
            } else {
                "<non-string panic payload>".to_string()
            };
            let loc = info
                .location()
                .map(|l| format!("{}:{}:{}", l.file(), l.line(), l.column()))
                .unwrap_or_default();
            if verbose {
                eprintln!("[panic] {msg} at {loc}");
            }
            if want_bt || !loc.contains("/repo/") {
                let bt = std::backtrace::Backtrace::force_capture().to_string();
                LAST_BT.with(|b| *b.borrow_mut() = Some(bt));
            } else {
                LAST_BT.with(|b| *b.borrow_mut() = None);
            }
            LAST_PANIC.with(|p| *p.borrow_mut() = Some((msg, loc)));
        }));
    });
}

pub fn last_backtrace() -> Option<String> {
    LAST_BT.with(|b| b.borrow_mut().take())
}

fn first_repo_frame(bt: &str) -> Option<(String, String)> {
    // innermost frames inside /repo (up to 4, joined) - for the human-readable description only
    let lines: Vec<&str> = bt.lines().collect();
    let mut funcs = vec![];
    let mut first_file = None;
    for i in 0..lines.len() {
        let l = lines[i].trim();
        if let Some(rest) = l.strip_prefix("at ") {
            if let Some(p) = rest.find("/repo/") {
                let loc = rest[p + 6..].to_string();
                let file = loc.split(':').next().unwrap_or("").to_string();
                let func = if i > 0 { lines[i - 1].trim().splitn(2, ": ").nth(1).unwrap_or("").to_string() } else { String::new() };
                if first_file.is_none() {
                    first_file = Some(file);
                }
                funcs.push(format!("{func} [{loc}]"));
                if funcs.len() >= 4 {
                    break;
                }
            }
        }
    }
    first_file.map(|f| (funcs.join(" <- "), f))
}

/// Run `f`, converting an unwind into `PanicInfo`.
pub fn guarded<T>(f: impl FnOnce() -> T) -> Result<T, PanicInfo> {
    LAST_PANIC.with(|p| *p.borrow_mut() = None);
    match catch_unwind(AssertUnwindSafe(f)) {
        Ok(v) => Ok(v),
        Err(payload) => {
            let nested = payload.downcast_ref::<NestedLockMarker>().is_some();
            let (message, location) = LAST_PANIC
                .with(|p| p.borrow_mut().take())
                .unwrap_or_else(|| ("<unknown>".into(), String::new()));
            let repo_frame = LAST_BT.with(|b| b.borrow_mut().take()).and_then(|bt| first_repo_frame(&bt));
            Err(PanicInfo { message, location, nested_lock: nested, repo_frame })
        }
    }
}

// ------------------------------------------------------------------------------------------
// MonMutex

pub static LOCK_ACQUISITIONS: AtomicU64 = AtomicU64::new(0);
pub static LOCK_MAX_PER_CALL: AtomicU64 = AtomicU64::new(0);
pub static NESTED_EVENTS: Mutex<Vec<NestedEvent>> = Mutex::new(Vec::new());
pub static POISON_EVENTS: AtomicU64 = AtomicU64::new(0);

#[derive(Clone, Debug, serde::Serialize)]
pub struct NestedEvent {
    pub outer_write: bool,
    pub inner_write: bool,
    pub backtrace: String,
}

thread_local! {
    static HELD: RefCell<Vec<(usize, bool)>> = const { RefCell::new(Vec::new()) };
    static CALL_ACQ: std::cell::Cell<u64> = const { std::cell::Cell::new(0) };
}

/// When enabled, the Debug rendering of the instance state is recorded at every release of the
/// write lock, i.e. exactly the states another thread could observe between two acquisitions.
pub static RECORD_WRITE_RELEASES: std::sync::atomic::AtomicBool = std::sync::atomic::AtomicBool::new(false);
thread_local! {
    pub static WRITE_RELEASES: RefCell<Vec<String>> = const { RefCell::new(Vec::new()) };
}
pub fn take_write_releases() -> Vec<String> {
    WRITE_RELEASES.with(|w| std::mem::take(&mut *w.borrow_mut()))
}

pub fn reset_call_acquisitions() {
    CALL_ACQ.with(|c| c.set(0));
}
pub fn call_acquisitions() -> u64 {
    CALL_ACQ.with(|c| c.get())
}

pub struct MonMutex {
    lock: RwLock<PtpInstanceState>,
}

struct HeldGuard;
impl Drop for HeldGuard {
    fn drop(&mut self) {
        HELD.with(|h| {
            h.borrow_mut().pop();
        });
    }
}

impl MonMutex {
    fn enter(&self, write: bool) -> HeldGuard {
        let addr = self as *const _ as usize;
        let nested = HELD.with(|h| h.borrow().iter().find(|(a, _)| *a == addr).map(|(_, w)| *w));
        if let Some(outer_write) = nested {
            let bt = std::backtrace::Backtrace::force_capture().to_string();
            // keep only frames mentioning statime to make the witness readable
            let bt: String = bt
                .lines()
                .filter(|l| l.contains("statime") || l.contains("/repo/"))
                .take(40)
                .collect::<Vec<_>>()
                .join("\n");
            NESTED_EVENTS.lock().unwrap().push(NestedEvent { outer_write, inner_write: write, backtrace: bt });
            std::panic::panic_any(NestedLockMarker);
        }
        HELD.with(|h| h.borrow_mut().push((addr, write)));
        LOCK_ACQUISITIONS.fetch_add(1, Ordering::Relaxed);
        CALL_ACQ.with(|c| c.set(c.get() + 1));
        HeldGuard
    }
}

impl PtpInstanceStateMutex for MonMutex {
    fn new(state: PtpInstanceState) -> Self {
        MonMutex { lock: RwLock::new(state) }
    }
    fn with_ref<R, F: FnOnce(&PtpInstanceState) -> R>(&self, f: F) -> R {
        let _g = self.enter(false);
        let guard = match self.lock.read() {
            Ok(g) => g,
            Err(p) => {
                POISON_EVENTS.fetch_add(1, Ordering::Relaxed);
                p.into_inner()
            }
        };
        f(&guard)
    }
    fn with_mut<R, F: FnOnce(&mut PtpInstanceState) -> R>(&self, f: F) -> R {
        let _g = self.enter(true);
        let mut guard = match self.lock.write() {
            Ok(g) => g,
            Err(p) => {
                POISON_EVENTS.fetch_add(1, Ordering::Relaxed);
                p.into_inner()
            }
        };
        let r = f(&mut guard);
        if RECORD_WRITE_RELEASES.load(Ordering::Relaxed) {
            let snap = format!("{:?}", *guard);
            WRITE_RELEASES.with(|w| w.borrow_mut().push(snap));
        }
        r
    }
}

// ------------------------------------------------------------------------------------------
// time helpers (units of 2^-32 ns, same as the bits of `Time` / `Duration`)

pub const NS: u128 = 1u128 << 32;
pub const SEC: u128 = 1_000_000_000u128 << 32;

pub fn time_from_units(u: u128) -> Time {
    Time::from_fixed_nanos(fixed::types::U96F32::from_bits(u))
}
pub fn time_units(t: Time) -> u128 {
    t.nanos().to_bits()
}
pub fn dur_from_units(u: i128) -> Duration {
    Duration::from_fixed_nanos(fixed::types::I96F32::from_bits(u))
}
pub fn dur_units(d: Duration) -> i128 {
    d.nanos().to_bits()
}
pub fn ns_to_units(ns: u64) -> u128 {
    (ns as u128) << 32
}
pub fn units_to_ns_f64(u: i128) -> f64 {
    u as f64 / 4294967296.0
}

// ------------------------------------------------------------------------------------------
// SimClock

#[derive(Clone, Debug, PartialEq, serde::Serialize)]
pub enum ClockCallKind {
    SetFrequency(f64),
    StepClock(i128),
    SetProperties(String),
}

#[derive(Clone, Debug, PartialEq, serde::Serialize)]
pub struct ClockCall {
    pub port: u16,
    pub kind: ClockCallKind,
    pub true_time: u128,
    pub ok: bool,
}

#[derive(Debug)]
pub struct SimClock {
    /// current true time, set by the simulator before every host call
    pub true_now: u128,
    base_true: u128,
    base_local: u128,
    pub osc_ppm: f64,
    pub prog_ppm: f64,
    pub log: Vec<ClockCall>,
    pub record: bool,
    /// fail every n-th control call (1-based counter), None = never
    pub fail_every: Option<u32>,
    calls: u32,
}

impl SimClock {
    pub fn new(true_now: u128, local_now: u128, osc_ppm: f64) -> SimClock {
        SimClock {
            true_now,
            base_true: true_now,
            base_local: local_now,
            osc_ppm,
            prog_ppm: 0.0,
            log: vec![],
            record: true,
            fail_every: None,
            calls: 0,
        }
    }
    fn rate_minus_one(&self) -> f64 {
        let e = self.osc_ppm * 1e-6;
        let f = self.prog_ppm * 1e-6;
        e + f + e * f
    }
    pub fn read_at(&self, true_t: u128) -> u128 {
        let (el, neg) = if true_t >= self.base_true {
            (true_t - self.base_true, false)
        } else {
            (self.base_true - true_t, true)
        };
        let adj = (el as f64 * self.rate_minus_one()).round() as i128;
        let delta = el as i128 + adj;
        let v = if neg { self.base_local as i128 - delta } else { self.base_local as i128 + delta };
        v.max(0) as u128
    }
    pub fn read(&self) -> u128 {
        self.read_at(self.true_now)
    }
    fn rebase(&mut self) {
        let l = self.read();
        self.base_local = l;
        self.base_true = self.true_now;
    }
    pub fn set_true(&mut self, t: u128) {
        self.true_now = t;
    }
    fn should_fail(&mut self) -> bool {
        self.calls += 1;
        matches!(self.fail_every, Some(n) if n > 0 && self.calls % n == 0)
    }
    pub fn do_set_frequency(&mut self, port: u16, ppm: f64) -> Result<Time, ClockFail> {
        let fail = self.should_fail();
        if self.record {
            self.log.push(ClockCall { port, kind: ClockCallKind::SetFrequency(ppm), true_time: self.true_now, ok: !fail });
        }
        if fail {
            return Err(ClockFail);
        }
        self.rebase();
        if ppm.is_finite() {
            self.prog_ppm = ppm;
        }
        Ok(time_from_units(self.read()))
    }
    pub fn do_step(&mut self, port: u16, offset: Duration) -> Result<Time, ClockFail> {
        let fail = self.should_fail();
        let u = dur_units(offset);
        if self.record {
            self.log.push(ClockCall { port, kind: ClockCallKind::StepClock(u), true_time: self.true_now, ok: !fail });
        }
        if fail {
            return Err(ClockFail);
        }
        self.rebase();
        let nl = self.base_local as i128 + u;
        self.base_local = nl.max(0) as u128;
        Ok(time_from_units(self.read()))
    }
}

#[derive(Debug, Clone, Copy)]
pub struct ClockFail;

#[derive(Clone)]
pub struct ClockHandle {
    pub inner: Arc<Mutex<SimClock>>,
    pub port: u16,
}

impl Clock for ClockHandle {
    type Error = ClockFail;
    fn now(&self) -> Time {
        time_from_units(self.inner.lock().unwrap().read())
    }
    fn step_clock(&mut self, offset: Duration) -> Result<Time, Self::Error> {
        self.inner.lock().unwrap().do_step(self.port, offset)
    }
    fn set_frequency(&mut self, ppm: f64) -> Result<Time, Self::Error> {
        self.inner.lock().unwrap().do_set_frequency(self.port, ppm)
    }
    fn set_properties(&mut self, tp: &TimePropertiesDS) -> Result<(), Self::Error> {
        let mut c = self.inner.lock().unwrap();
        let fail = c.should_fail();
        if c.record {
            let t = c.true_now;
            c.log.push(ClockCall { port: self.port, kind: ClockCallKind::SetProperties(format!("{tp:?}")), true_time: t, ok: !fail });
        }
        if fail {
            Err(ClockFail)
        } else {
            Ok(())
        }
    }
}

// ------------------------------------------------------------------------------------------
// filters

#[derive(Clone, Debug)]
pub enum RecEvent {
    New { filter: u64 },
    Measurement { filter: u64, m: Measurement, reply_mean_delay: Option<i128> },
    Update { filter: u64 },
    Demobilize { filter: u64 },
}

#[derive(Clone, Copy, Debug)]
pub enum ReplyMode {
    /// behave like BasicFilter: report `delay` / `peer_delay` of the measurement as mean delay
    EchoDelay,
    /// never report a mean delay
    Never,
    /// report a unique value k*step (k = 1,2,..) on every measurement
    Counter { step: i128 },
}

#[derive(Debug)]
pub struct RecLog {
    pub events: Vec<RecEvent>,
    pub next_filter_id: u64,
    pub reply: ReplyMode,
    pub counter: i128,
    pub next_update: Option<core::time::Duration>,
}

impl RecLog {
    pub fn new(reply: ReplyMode) -> Arc<Mutex<RecLog>> {
        Arc::new(Mutex::new(RecLog { events: vec![], next_filter_id: 0, reply, counter: 0, next_update: None }))
    }
}

pub struct RecFilter {
    id: u64,
    sink: Arc<Mutex<RecLog>>,
    last_offset: Duration,
    last_delay: Duration,
}

#[derive(Clone)]
pub enum FilterCfg {
    Kalman(KalmanConfiguration),
    Basic(f64),
    Rec(Arc<Mutex<RecLog>>),
}

pub enum AnyFilter {
    Kalman(KalmanFilter),
    Basic(BasicFilter),
    Rec(RecFilter),
}

impl Filter for AnyFilter {
    type Config = FilterCfg;
    fn new(config: FilterCfg) -> Self {
        match config {
            FilterCfg::Kalman(c) => AnyFilter::Kalman(KalmanFilter::new(c)),
            FilterCfg::Basic(g) => AnyFilter::Basic(BasicFilter::new(g)),
            FilterCfg::Rec(sink) => {
                let id = {
                    let mut s = sink.lock().unwrap();
                    let id = s.next_filter_id;
                    s.next_filter_id += 1;
                    s.events.push(RecEvent::New { filter: id });
                    id
                };
                AnyFilter::Rec(RecFilter { id, sink, last_offset: Duration::ZERO, last_delay: Duration::ZERO })
            }
        }
    }
    fn measurement<C: Clock>(&mut self, m: Measurement, clock: &mut C) -> FilterUpdate {
        match self {
            AnyFilter::Kalman(f) => f.measurement(m, clock),
            AnyFilter::Basic(f) => f.measurement(m, clock),
            AnyFilter::Rec(f) => {
                let mut s = f.sink.lock().unwrap();
                let reply = match s.reply {
                    ReplyMode::EchoDelay => m.delay.or(m.peer_delay),
                    ReplyMode::Never => None,
                    ReplyMode::Counter { step } => {
                        s.counter += 1;
                        Some(dur_from_units(s.counter * step))
                    }
                };
                if let Some(o) = m.offset {
                    f.last_offset = o;
                }
                if let Some(d) = reply {
                    f.last_delay = d;
                }
                s.events.push(RecEvent::Measurement { filter: f.id, m, reply_mean_delay: reply.map(dur_units) });
                FilterUpdate { next_update: s.next_update, mean_delay: reply }
            }
        }
    }
    fn update<C: Clock>(&mut self, clock: &mut C) -> FilterUpdate {
        match self {
            AnyFilter::Kalman(f) => f.update(clock),
            AnyFilter::Basic(f) => f.update(clock),
            AnyFilter::Rec(f) => {
                f.sink.lock().unwrap().events.push(RecEvent::Update { filter: f.id });
                FilterUpdate::default()
            }
        }
    }
    fn demobilize<C: Clock>(self, clock: &mut C) {
        match self {
            AnyFilter::Kalman(f) => f.demobilize(clock),
            AnyFilter::Basic(f) => f.demobilize(clock),
            AnyFilter::Rec(f) => {
                f.sink.lock().unwrap().events.push(RecEvent::Demobilize { filter: f.id });
            }
        }
    }
    fn current_estimates(&self) -> FilterEstimate {
        match self {
            AnyFilter::Kalman(f) => f.current_estimates(),
            AnyFilter::Basic(f) => f.current_estimates(),
            AnyFilter::Rec(f) => FilterEstimate { offset_from_master: f.last_offset, mean_delay: f.last_delay },
        }
    }
}

// ------------------------------------------------------------------------------------------
// acceptable master list, TLV providers

#[derive(Clone, Debug)]
pub enum Aml {
    Any,
    List(Vec<ClockIdentity>),
}

impl AcceptableMasterList for Aml {
    fn is_acceptable(&self, identity: ClockIdentity) -> bool {
        match self {
            Aml::Any => true,
            Aml::List(l) => l.contains(&identity),
        }
    }
}

/// A provider that does exactly what the trait documentation allows: hands out the next queued
/// TLV "unless it is larger than max_size".
#[derive(Default)]
pub struct ScriptedProvider {
    pub queue: VecDeque<ForwardedTLV<'static>>,
    pub handed_out: u64,
}

impl ForwardedTLVProvider for ScriptedProvider {
    fn next_if_smaller(&mut self, max_size: usize) -> Option<ForwardedTLV<'_>> {
        match self.queue.front() {
            Some(t) if t.size() <= max_size => {
                self.handed_out += 1;
                self.queue.pop_front()
            }
            _ => None,
        }
    }
}

pub enum Provider {
    None,
    Real(TlvForwarder),
    Scripted(ScriptedProvider),
}

impl ForwardedTLVProvider for Provider {
    fn next_if_smaller(&mut self, max_size: usize) -> Option<ForwardedTLV<'_>> {
        match self {
            Provider::None => None,
            Provider::Real(f) => f.next_if_smaller(max_size),
            Provider::Scripted(s) => s.next_if_smaller(max_size),
        }
    }
}

#[derive(Clone, Copy, Debug, PartialEq, Eq)]
pub enum TlvMode {
    None,
    /// the daemon's forwarder, one duplicate() per port
    Real,
    /// contract-honouring scripted provider fed from ForwardTLV actions of the other ports
    Scripted,
}

// ------------------------------------------------------------------------------------------
// owned actions

pub enum Act {
    SendEvent { ctx: Option<TimestampContext>, ctx_dbg: String, data: Vec<u8>, link_local: bool },
    SendGeneral { data: Vec<u8>, link_local: bool },
    ResetAnnounceTimer(core::time::Duration),
    ResetSyncTimer(core::time::Duration),
    ResetDelayRequestTimer(core::time::Duration),
    ResetAnnounceReceiptTimer(core::time::Duration),
    ResetFilterUpdateTimer(core::time::Duration),
    ForwardTlv { tlv: Option<ForwardedTLV<'static>>, dbg: String, size: usize },
}

impl Act {
    pub fn digest(&self) -> String {
        match self {
            Act::SendEvent { ctx_dbg, data, link_local, .. } => format!("SE[{ctx_dbg}|{}|{link_local}]", hex(data)),
            Act::SendGeneral { data, link_local } => format!("SG[{}|{link_local}]", hex(data)),
            Act::ResetAnnounceTimer(d) => format!("RA[{}]", d.as_nanos()),
            Act::ResetSyncTimer(d) => format!("RS[{}]", d.as_nanos()),
            Act::ResetDelayRequestTimer(d) => format!("RD[{}]", d.as_nanos()),
            Act::ResetAnnounceReceiptTimer(d) => format!("RR[{}]", d.as_nanos()),
            Act::ResetFilterUpdateTimer(d) => format!("RF[{}]", d.as_nanos()),
            Act::ForwardTlv { dbg, .. } => format!("FT[{dbg}]"),
        }
    }
    pub fn kind(&self) -> &'static str {
        match self {
            Act::SendEvent { .. } => "SendEvent",
            Act::SendGeneral { .. } => "SendGeneral",
            Act::ResetAnnounceTimer(_) => "ResetAnnounceTimer",
            Act::ResetSyncTimer(_) => "ResetSyncTimer",
            Act::ResetDelayRequestTimer(_) => "ResetDelayRequestTimer",
            Act::ResetAnnounceReceiptTimer(_) => "ResetAnnounceReceiptTimer",
            Act::ResetFilterUpdateTimer(_) => "ResetFilterUpdateTimer",
            Act::ForwardTlv { .. } => "ForwardTlv",
        }
    }
}

pub fn hex(b: &[u8]) -> String {
    let mut s = String::with_capacity(b.len() * 2);
    for x in b {
        s.push_str(&format!("{x:02x}"));
    }
    s
}

pub fn unhex(s: &str) -> Vec<u8> {
    (0..s.len() / 2).map(|i| u8::from_str_radix(&s[2 * i..2 * i + 2], 16).unwrap_or(0)).collect()
}

fn own_actions(it: PortActionIterator<'_>) -> Vec<Act> {
    let mut out = Vec::with_capacity(2);
    for a in it {
        out.push(match a {
            PortAction::SendEvent { context, data, link_local } => {
                let ctx_dbg = format!("{context:?}");
                Act::SendEvent { ctx: Some(context), ctx_dbg, data: data.to_vec(), link_local }
            }
            PortAction::SendGeneral { data, link_local } => Act::SendGeneral { data: data.to_vec(), link_local },
            PortAction::ResetAnnounceTimer { duration } => Act::ResetAnnounceTimer(duration),
            PortAction::ResetSyncTimer { duration } => Act::ResetSyncTimer(duration),
            PortAction::ResetDelayRequestTimer { duration } => Act::ResetDelayRequestTimer(duration),
            PortAction::ResetAnnounceReceiptTimer { duration } => Act::ResetAnnounceReceiptTimer(duration),
            PortAction::ResetFilterUpdateTimer { duration } => Act::ResetFilterUpdateTimer(duration),
            PortAction::ForwardTLV { tlv } => {
                let dbg = format!("{tlv:?}");
                let size = tlv.size();
                Act::ForwardTlv { tlv: Some(tlv.into_owned()), dbg, size }
            }
        });
    }
    out
}

// ------------------------------------------------------------------------------------------
// Node

pub type Inst = PtpInstance<AnyFilter, MonMutex>;
pub type RPort = Port<'static, Running, Aml, StdRng, ClockHandle, AnyFilter, MonMutex>;
pub type BPort = Port<'static, InBmca, Aml, StdRng, ClockHandle, AnyFilter, MonMutex>;

enum Slot {
    Running(Box<RPort>),
    InBmca(Box<BPort>),
    Empty,
}

#[derive(Clone)]
pub struct PortCfg {
    pub cfg: PortConfig<Aml>,
    pub filter: FilterCfg,
    pub rng_seed: u64,
}

#[derive(Clone)]
pub struct NodeCfg {
    pub inst: InstanceConfig,
    pub tp: TimePropertiesDS,
    pub ports: Vec<PortCfg>,
    pub tlv: TlvMode,
}

pub enum Call {
    EventRx(Vec<u8>, Time),
    GeneralRx(Vec<u8>),
    TxTimestamp(TimestampContext, Time),
    AnnounceTimer,
    SyncTimer,
    DelayRequestTimer,
    AnnounceReceiptTimer,
    FilterUpdateTimer,
}

impl Call {
    pub fn kind(&self) -> &'static str {
        match self {
            Call::EventRx(..) => "EventRx",
            Call::GeneralRx(..) => "GeneralRx",
            Call::TxTimestamp(..) => "TxTimestamp",
            Call::AnnounceTimer => "AnnounceTimer",
            Call::SyncTimer => "SyncTimer",
            Call::DelayRequestTimer => "DelayRequestTimer",
            Call::AnnounceReceiptTimer => "AnnounceReceiptTimer",
            Call::FilterUpdateTimer => "FilterUpdateTimer",
        }
    }
    pub fn describe(&self) -> String {
        match self {
            Call::EventRx(d, t) => format!("EventRx({}, t={})", hex(d), time_units(*t)),
            Call::GeneralRx(d) => format!("GeneralRx({})", hex(d)),
            Call::TxTimestamp(c, t) => format!("TxTimestamp({c:?}, t={})", time_units(*t)),
            other => other.kind().to_string(),
        }
    }
}

#[derive(Clone, Debug, PartialEq, Eq)]
pub struct Snapshot {
    pub port_states: Vec<PortState>,
    pub steering: Vec<bool>,
    pub datasets: String,
}

pub struct Node {
    inst_ptr: *mut Inst,
    slots: Vec<Slot>,
    pub clock: Arc<Mutex<SimClock>>,
    pub providers: Vec<Provider>,
    pub forward_root: Option<TlvForwarder>,
    pub initial_actions: Vec<Vec<Act>>,
    pub dead: bool,
    pub cfg: NodeCfg,
}

// Node is moved between threads only as a whole in the C17 workload (ports of one node are
// then driven from separate threads through `split_ports`).
unsafe impl Send for Node {}

impl Drop for Node {
    fn drop(&mut self) {
        // ports borrow the instance: drop them first
        self.slots.clear();
        self.providers.clear();
        // SAFETY: created by Box::into_raw in `new`, all borrowers are gone.
        unsafe { drop(Box::from_raw(self.inst_ptr)) };
    }
}

impl Node {
    pub fn new(cfg: NodeCfg, clock: Arc<Mutex<SimClock>>) -> Result<Node, PanicInfo> {
        install_panic_hook();
        let inst_ptr = Box::into_raw(Box::new(Inst::new(cfg.inst, cfg.tp)));
        // SAFETY: the instance lives until Node::drop, after all ports are dropped.
        let inst: &'static Inst = unsafe { &*inst_ptr };
        let mut node = Node {
            inst_ptr,
            slots: vec![],
            clock: clock.clone(),
            providers: vec![],
            forward_root: None,
            initial_actions: vec![],
            dead: false,
            cfg: cfg.clone(),
        };
        if cfg.tlv == TlvMode::Real {
            node.forward_root = Some(TlvForwarder::new());
        }
        for (i, pc) in cfg.ports.iter().enumerate() {
            let handle = ClockHandle { inner: clock.clone(), port: (i + 1) as u16 };
            let pc = pc.clone();
            let r = guarded(|| {
                let p = inst.add_port(pc.cfg, pc.filter, handle, StdRng::seed_from_u64(pc.rng_seed));
                let (p, acts) = p.end_bmca();
                (p, own_actions(acts))
            });
            match r {
                Ok((p, acts)) => {
                    node.slots.push(Slot::Running(Box::new(p)));
                    node.initial_actions.push(acts);
                }
                Err(e) => {
                    node.dead = true;
                    return Err(e);
                }
            }
            node.providers.push(match cfg.tlv {
                TlvMode::None => Provider::None,
                TlvMode::Real => Provider::Real(node.forward_root.as_ref().unwrap().duplicate()),
                TlvMode::Scripted => Provider::Scripted(ScriptedProvider::default()),
            });
        }
        // the daemon drops the root forwarder after handing out the duplicates
        Ok(node)
    }

    pub fn inst(&self) -> &'static Inst {
        // SAFETY: see `new`
        unsafe { &*self.inst_ptr }
    }

    pub fn n_ports(&self) -> usize {
        self.slots.len()
    }

    fn running(&mut self, port: usize) -> &mut RPort {
        match &mut self.slots[port] {
            Slot::Running(p) => p,
            _ => panic!("harness: port not running"),
        }
    }

    pub fn port_ref(&self, port: usize) -> &RPort {
        match &self.slots[port] {
            Slot::Running(p) => p,
            _ => panic!("harness: port not running"),
        }
    }

    pub fn port_state(&self, port: usize) -> PortState {
        self.port_ref(port).port_ds().port_state
    }

    pub fn port_identity_bytes(&self, port: usize) -> ([u8; 8], u16) {
        let id = self.port_ref(port).port_ds().port_identity;
        (id.clock_identity.0, id.port_number)
    }

    /// One host call on one port. The TLV provider of that port is used for announce timers.
    pub fn call(&mut self, port: usize, call: Call) -> Result<Vec<Act>, PanicInfo> {
        if self.dead {
            panic!("harness: call on dead node");
        }
        reset_call_acquisitions();
        let slots = &mut self.slots;
        let providers = &mut self.providers;
        let r = guarded(|| {
            let p = match &mut slots[port] {
                Slot::Running(p) => p,
                _ => panic!("harness: port not running"),
            };
            match call {
                Call::EventRx(data, t) => own_actions(p.handle_event_receive(&data, t)),
                Call::GeneralRx(data) => own_actions(p.handle_general_receive(&data)),
                Call::TxTimestamp(ctx, t) => own_actions(p.handle_send_timestamp(ctx, t)),
                Call::AnnounceTimer => own_actions(p.handle_announce_timer(&mut providers[port])),
                Call::SyncTimer => own_actions(p.handle_sync_timer()),
                Call::DelayRequestTimer => own_actions(p.handle_delay_request_timer()),
                Call::AnnounceReceiptTimer => own_actions(p.handle_announce_receipt_timer()),
                Call::FilterUpdateTimer => own_actions(p.handle_filter_update_timer()),
            }
        });
        LOCK_MAX_PER_CALL.fetch_max(call_acquisitions(), Ordering::Relaxed);
        if r.is_err() {
            self.dead = true;
        }
        r
    }

    /// Route a ForwardTlv action the way the daemon does (`tlv_forwarder.forward` on the sending
    /// port's duplicate reaches every duplicate, including the sender's own), or, in scripted
    /// mode, queue it on every *other* port's provider.
    pub fn forward_tlv(&mut self, from_port: usize, tlv: ForwardedTLV<'static>) {
        match self.cfg.tlv {
            TlvMode::None => {}
            TlvMode::Real => {
                if let Provider::Real(f) = &self.providers[from_port] {
                    f.forward(tlv);
                }
            }
            TlvMode::Scripted => {
                for (i, p) in self.providers.iter_mut().enumerate() {
                    if i != from_port {
                        if let Provider::Scripted(s) = p {
                            s.queue.push_back(tlv.clone());
                        }
                    }
                }
            }
        }
    }

    /// Stop-the-world BMCA exactly as the daemon does it: every port start_bmca, one
    /// `PtpInstance::bmca` over all of them (in `order`), every port end_bmca. Returns the pending
    /// actions per port.
    pub fn bmca_ordered(&mut self, order: &[usize]) -> Result<Vec<Vec<Act>>, PanicInfo> {
        if self.dead {
            panic!("harness: bmca on dead node");
        }
        reset_call_acquisitions();
        let inst = self.inst();
        let n = self.slots.len();
        let mut taken: Vec<Option<Box<RPort>>> = Vec::with_capacity(n);
        for s in self.slots.iter_mut() {
            match std::mem::replace(s, Slot::Empty) {
                Slot::Running(p) => taken.push(Some(p)),
                _ => panic!("harness: slot state"),
            }
        }
        let order = order.to_vec();
        let r = guarded(move || {
            let mut b: Vec<Option<BPort>> = taken.into_iter().map(|p| Some((*p.unwrap()).start_bmca())).collect();
            {
                // build the slice in the requested order
                let mut refs: Vec<&mut BPort> = Vec::with_capacity(n);
                let mut ptrs: Vec<*mut BPort> = b.iter_mut().map(|x| x.as_mut().unwrap() as *mut BPort).collect();
                for &i in &order {
                    // SAFETY: `order` is a permutation (checked below), so each element is borrowed once
                    refs.push(unsafe { &mut *ptrs[i] });
                }
                let mut seen = vec![false; n];
                for &i in &order {
                    assert!(!seen[i], "harness: order not a permutation");
                    seen[i] = true;
                }
                assert_eq!(order.len(), n);
                inst.bmca(&mut refs);
                ptrs.clear();
            }
            let mut out_ports = Vec::with_capacity(n);
            let mut out_acts = Vec::with_capacity(n);
            for p in b.iter_mut() {
                let (rp, acts) = p.take().unwrap().end_bmca();
                out_acts.push(own_actions(acts));
                out_ports.push(rp);
            }
            (out_ports, out_acts)
        });
        LOCK_MAX_PER_CALL.fetch_max(call_acquisitions(), Ordering::Relaxed);
        match r {
            Ok((ports, acts)) => {
                for (s, p) in self.slots.iter_mut().zip(ports) {
                    *s = Slot::Running(Box::new(p));
                }
                Ok(acts)
            }
            Err(e) => {
                self.dead = true;
                Err(e)
            }
        }
    }

    pub fn bmca(&mut self) -> Result<Vec<Vec<Act>>, PanicInfo> {
        let order: Vec<usize> = (0..self.slots.len()).collect();
        self.bmca_ordered(&order)
    }

    pub fn set_slave_only(&mut self, v: bool) -> Result<(), PanicInfo> {
        let inst = self.inst();
        let r = guarded(|| inst.set_slave_only(v));
        if r.is_err() {
            self.dead = true;
        }
        r
    }

    pub fn set_clock_quality(&mut self, q: ClockQuality) -> Result<(), PanicInfo> {
        let inst = self.inst();
        let r = guarded(|| inst.set_clock_quality(q));
        if r.is_err() {
            self.dead = true;
        }
        r
    }

    pub fn snapshot(&self) -> Result<Snapshot, PanicInfo> {
        let inst = self.inst();
        let slots = &self.slots;
        guarded(|| {
            let mut port_states = vec![];
            let mut steering = vec![];
            let mut ds = String::new();
            for s in slots {
                if let Slot::Running(p) = s {
                    let pds = p.port_ds();
                    port_states.push(pds.port_state);
                    steering.push(p.is_steering());
                    ds.push_str(&format!("{pds:?};master={};", p.is_master()));
                }
            }
            ds.push_str(&format!(
                "{:?};{:?};{:?};{:?};{:?}",
                inst.default_ds(),
                inst.current_ds(None),
                inst.parent_ds(),
                inst.time_properties_ds(),
                inst.path_trace_ds()
            ));
            Snapshot { port_states, steering, datasets: ds }
        })
    }

    /// take the ports out (C17 threaded workload); the Node keeps owning the instance
    pub fn take_ports(&mut self) -> Vec<Box<RPort>> {
        let mut v = vec![];
        for s in self.slots.iter_mut() {
            if let Slot::Running(p) = std::mem::replace(s, Slot::Empty) {
                v.push(p);
            }
        }
        v
    }
    pub fn put_ports(&mut self, ports: Vec<Box<RPort>>) {
        for (s, p) in self.slots.iter_mut().zip(ports) {
            *s = Slot::Running(p);
        }
    }
}

pub fn own(it: PortActionIterator<'_>) -> Vec<Act> {
    own_actions(it)
}

// ------------------------------------------------------------------------------------------
// default configurations

pub fn clock_id(n: u8) -> ClockIdentity {
    ClockIdentity([0x00, 0x11, 0x22, 0xff, 0xfe, 0x33, 0x44, n])
}

pub fn default_instance(id: ClockIdentity) -> InstanceConfig {
    InstanceConfig {
        clock_identity: id,
        priority_1: 128,
        priority_2: 128,
        domain_number: 0,
        sdo_id: Default::default(),
        slave_only: false,
        path_trace: false,
        clock_quality: ClockQuality::default(),
    }
}

pub fn default_port(aml: Aml) -> PortConfig<Aml> {
    use statime::config::{DelayMechanism, PtpMinorVersion};
    use statime::time::Interval;
    PortConfig {
        acceptable_master_list: aml,
        delay_mechanism: DelayMechanism::E2E { interval: Interval::from_log_2(0) },
        announce_interval: Interval::from_log_2(0),
        announce_receipt_timeout: 3,
        sync_interval: Interval::from_log_2(0),
        master_only: false,
        delay_asymmetry: Duration::ZERO,
        minor_ptp_version: PtpMinorVersion::One,
    }
}

pub fn perfect_clock(start_units: u128) -> Arc<Mutex<SimClock>> {
    Arc::new(Mutex::new(SimClock::new(start_units, start_units, 0.0)))
}
