//! C05 - BMCA state decision matches IEEE 1588 for every data set combination.
//! Oracle: `refbmca` (independent reading of Figures 33-35 and tables 30-33) + metamorphic
//! comparison under permutation of the port slice and of the Announce arrival order.

use rand::rngs::StdRng;
use rand::seq::SliceRandom;
use rand::{Rng, SeedableRng};
use serde_json::json;
use statime::config::LeapIndicator;
use statime::observability::port::PortState;

use crate::drive::*;
use crate::node::*;
use crate::refbmca::*;
use crate::refcodec::*;
use crate::report::*;

#[derive(Clone, Debug, serde::Serialize, serde::Deserialize)]
pub struct MasterSpec {
    pub port: usize,
    pub gm_id: u8,
    pub p1: u8,
    pub class: u8,
    pub acc: u8,
    pub var: u16,
    pub p2: u8,
    pub steps: u16,
    pub sender_id: u8,
    pub sender_port: u16,
    pub utc: i16,
    pub flags1: u8,
    pub time_source: u8,
}

#[derive(Clone, Debug, serde::Serialize, serde::Deserialize)]
pub struct Case {
    pub own_id: u8,
    pub p1: u8,
    pub class: u8,
    pub acc: u8,
    pub var: u16,
    pub p2: u8,
    pub slave_only: bool,
    pub n_ports: usize,
    pub master_only: Vec<bool>,
    /// ports forced to Master by receipt timeout before the first phase
    pub pre_master: Vec<bool>,
    pub phases: Vec<Vec<MasterSpec>>,
    pub rounds: usize,
    pub port_order: Vec<usize>,
    pub arrival_seed: u64,
    /// the masters announce in every `gap`-th round only (1 = every round); with gap <= 3 two
    /// Announces of each are inside the four-interval window at the deciding run
    #[serde(default)]
    pub gap: usize,
    /// this port (P2P) is disabled by a peer-delay fault (two responders) right before the
    /// deciding run of the last phase: it takes no part in the election, the decision for it is
    /// still taken (and carries the data set update when it is M1/M2)
    #[serde(default)]
    pub faulty_port: Option<usize>,
}

fn idb(n: u8) -> [u8; 8] {
    clock_id(n).0
}

fn ann_of(m: &MasterSpec) -> Ann {
    Ann {
        gm_id: idb(m.gm_id),
        p1: m.p1,
        class: m.class,
        acc: m.acc,
        var: m.var,
        p2: m.p2,
        steps: m.steps,
        sender: (idb(m.sender_id), m.sender_port),
        utc: m.utc,
        flags1: m.flags1,
        time_source: m.time_source,
    }
}

fn to_pstate(s: PortState) -> PState {
    match s {
        PortState::Listening => PState::Listening,
        PortState::Master => PState::Master,
        PortState::Passive => PState::Passive,
        PortState::Slave => PState::Slave,
        _ => PState::Faulty,
    }
}

#[derive(Clone, Debug, PartialEq, Eq)]
pub struct Outcome {
    pub states: Vec<PState>,
    pub steps_removed: u16,
    pub parent: (([u8; 8], u16), [u8; 8], u8, u8, u16, u8, u8),
    pub tp: (Option<i16>, u8, bool, bool, bool, u8), // utc, leap (0 none, 1 61, 2 59), time tr, freq tr, ptp, source
}

fn read_outcome(node: &Node) -> Outcome {
    let inst = node.inst();
    let p = inst.parent_ds();
    let tp = inst.time_properties_ds();
    Outcome {
        states: (0..node.n_ports()).map(|i| to_pstate(node.port_state(i))).collect(),
        steps_removed: inst.current_ds(None).steps_removed,
        parent: (
            (p.parent_port_identity.clock_identity.0, p.parent_port_identity.port_number),
            p.grandmaster_identity.0,
            p.grandmaster_clock_quality.clock_class,
            p.grandmaster_clock_quality.clock_accuracy.to_primitive(),
            p.grandmaster_clock_quality.offset_scaled_log_variance,
            p.grandmaster_priority_1,
            p.grandmaster_priority_2,
        ),
        tp: (
            tp.current_utc_offset,
            match tp.leap_indicator {
                LeapIndicator::NoLeap => 0,
                LeapIndicator::Leap61 => 1,
                LeapIndicator::Leap59 => 2,
            },
            tp.time_traceable,
            tp.frequency_traceable,
            tp.ptp_timescale,
            tp.time_source.to_primitive(),
        ),
    }
}

fn tp_of_ann(a: &Ann) -> (Option<i16>, u8, bool, bool, bool, u8) {
    let f = a.flags1;
    let leap = if f & 0x02 != 0 {
        2
    } else if f & 0x01 != 0 {
        1
    } else {
        0
    };
    (if f & 0x04 != 0 { Some(a.utc) } else { None }, leap, f & 0x10 != 0, f & 0x20 != 0, f & 0x08 != 0, a.time_source)
}

pub struct RunOut {
    pub outcome: Option<Outcome>,
    pub mismatch: Vec<(String, String)>,
    pub ambiguous: bool,
    pub codes: Vec<Code>,
}

/// run the case with a given port order / arrival permutation; compare with refbmca after the last
/// round of every phase
pub fn run_once(rep: &mut Report, case: &Case, port_order: &[usize], arrival_seed: u64, replay: &serde_json::Value) -> RunOut {
    let mut out = RunOut { outcome: None, mismatch: vec![], ambiguous: false, codes: vec![] };
    let mut b = Build::new(case.own_id);
    b.n_ports = case.n_ports;
    b.priority1 = case.p1;
    b.clock_class = case.class;
    b.slave_only = case.slave_only;
    b.master_only = case.master_only.clone();
    if let Some(fp) = case.faulty_port {
        b.p2p_ports = (0..case.n_ports).map(|p| p == fp).collect();
    }
    b.tp = statime::config::TimePropertiesDS::new_ptp_time(Some(37), LeapIndicator::Leap61, true, true, statime::config::TimeSource::Gnss);
    let built = {
        // accuracy / variance / p2 need the raw config
        let r = b.build();
        match r {
            Ok(x) => x,
            Err(p) => {
                rep.violation(&format!("C05|panic|{}|{}", p.site(), p.class()), &format!("setup panicked: {}", p.describe()), replay.clone());
                return out;
            }
        }
    };
    let mut node = built.node;
    // the data sets follow the state decision whatever the host's clock answers: in a third of the
    // cases every clock control call (set_properties at the S1 decision among them) fails
    if case.arrival_seed % 3 == 0 {
        node.clock.lock().unwrap().fail_every = Some(1);
        rep.ev("case_with_failing_clock");
    }
    // clock quality details via the public setter
    {
        let mut q = node.inst().default_ds().clock_quality;
        q.clock_class = case.class;
        q.offset_scaled_log_variance = case.var;
        q.clock_accuracy = accuracy_from(case.acc);
        if node.set_clock_quality(q).is_err() {
            return out;
        }
    }
    let own = Own { id: idb(case.own_id), p1: case.p1, class: case.class, acc: case.acc, var: case.var, p2: 128, slave_only: case.slave_only };
    for (i, pm) in case.pre_master.iter().enumerate() {
        if *pm && i < case.n_ports {
            if let Err(p) = node.call(i, Call::AnnounceReceiptTimer) {
                rep.violation(&format!("C05|panic|{}|{}", p.site(), p.class()), &format!("receipt timer panicked: {}", p.describe()), replay.clone());
                return out;
            }
        }
    }
    let mut rng = StdRng::seed_from_u64(arrival_seed);
    let mut seqs: std::collections::HashMap<(u8, u16, usize), u16> = Default::default();
    let mut prev_expected_tp: Option<(Option<i16>, u8, bool, bool, bool, u8)> = Some((Some(37), 1, true, true, true, 0x20));
    let mut prev_parent = ((own.id, 0u16), own.id, own.class, own.acc, own.var, own.p1, own.p2);
    let mut prev_steps = 0u16;
    for (pi, phase) in case.phases.iter().enumerate() {
        let mut extra_rounds = 0;
        let mut round = 0;
        loop {
            round += 1;
            let mut order: Vec<usize> = (0..phase.len()).collect();
            order.shuffle(&mut rng);
            let gap = case.gap.max(1);
            for &mi in &order {
                let m = &phase[mi];
                if m.port >= case.n_ports || (round - 1) % gap != 0 {
                    continue;
                }
                let seq = seqs.entry((m.sender_id, m.sender_port, m.port)).or_insert(rng.gen());
                *seq = seq.wrapping_add(1);
                let src = Src::new(idb(m.sender_id), m.sender_port);
                let mut msg = src.announce(
                    *seq,
                    AnnounceBody {
                        origin: Ts::default(),
                        utc_offset: m.utc,
                        reserved: 0,
                        gm_priority1: m.p1,
                        gm_class: m.class,
                        gm_accuracy: m.acc,
                        gm_variance: m.var,
                        gm_priority2: m.p2,
                        gm_identity: idb(m.gm_id),
                        steps_removed: m.steps,
                        time_source: m.time_source,
                    },
                );
                msg.hdr.flags = [0, m.flags1];
                if let Err(p) = node.call(m.port, Call::GeneralRx(msg.encode())) {
                    rep.violation(&format!("C05|panic|{}|{}", p.site(), p.class()), &format!("announce receive panicked: {}", p.describe()), replay.clone());
                    return out;
                }
            }
            let is_final = round >= case.rounds;
            if let Some(fp) = case.faulty_port {
                if is_final && pi + 1 == case.phases.len() && fp < case.n_ports && node.port_state(fp) != PortState::Faulty {
                    let (oc, op) = node.port_identity_bytes(fp);
                    let me = Pid { clock: oc, port: op };
                    if let Ok(acts) = node.call(fp, Call::DelayRequestTimer) {
                        for a in acts {
                            if let Act::SendEvent { data, .. } = a {
                                let Ok(m) = Msg::decode(&data) else { continue };
                                if m.hdr.msg_type != T_PDELAY_REQ {
                                    continue;
                                }
                                for r in [0x71u8, 0x72] {
                                    let resp = Src::new(idb(r), 1).pdelay_resp(m.hdr.seq, false, Ts { secs: 10, nanos: 0 }, me, 0);
                                    let _ = node.call(fp, Call::EventRx(resp.encode(), time_from_units(1000 * SEC)));
                                }
                            }
                        }
                    }
                    if node.port_state(fp) == PortState::Faulty {
                        rep.ev("deciding_run_with_a_faulty_port");
                    }
                }
            }
            let prior: Vec<PState> = (0..case.n_ports).map(|i| to_pstate(node.port_state(i))).collect();
            if is_final && gap > 1 {
                // sparse announcers drop out of the window between their Announces, and the runs in
                // between legitimately rewrite the data sets: what "untouched" means for the
                // deciding run is the state right before it
                let before = read_outcome(&node);
                prev_expected_tp = Some(before.tp);
                prev_parent = before.parent;
                prev_steps = before.steps_removed;
            }
            if let Err(p) = node.bmca_ordered(port_order) {
                rep.violation(&format!("C05|panic|{}|{}", p.site(), p.class()), &format!("bmca panicked: {}", p.describe()), replay.clone());
                return out;
            }
            // whatever decision the run took: if it made a port slave of master X (read from the
            // instance's own parentDS), the data sets are X's right away - table 33, S1 - not only
            // after X's next Announce has refreshed them
            {
                let got = read_outcome(&node);
                if let Some(si) = got.states.iter().position(|s| *s == PState::Slave) {
                    let mine: Vec<&MasterSpec> = phase.iter().filter(|m| m.port == si && (idb(m.sender_id), m.sender_port) == got.parent.0).collect();
                    if mine.len() == 1 {
                        let a = ann_of(mine[0]);
                        rep.ev("s1_datasets_checked_immediately");
                        let want_parent = ((a.sender.0, a.sender.1), a.gm_id, a.class, a.acc, a.var, a.p1, a.p2);
                        let acc_ok = got.parent.3 == want_parent.3 || (crate::c04::accuracy_is_reserved(got.parent.3) && crate::c04::accuracy_is_reserved(want_parent.3));
                        let parent_ok = got.parent.0 == want_parent.0 && got.parent.1 == want_parent.1 && got.parent.2 == want_parent.2 && acc_ok && got.parent.4 == want_parent.4 && got.parent.5 == want_parent.5 && got.parent.6 == want_parent.6;
                        if !parent_ok || got.steps_removed != a.steps.wrapping_add(1) || got.tp != tp_of_ann(&a) {
                            rep.violation(
                                "C05|S1|datasets-after-the-deciding-run",
                                &format!("round {round}: port {} is slave of {:?} but parentDS {:?} / stepsRemoved {} / timePropertiesDS {:?} are not those of its Announce ({:?}, {}, {:?})", si + 1, got.parent.0, got.parent, got.steps_removed, got.tp, want_parent, a.steps.wrapping_add(1), tp_of_ann(&a)),
                                replay.clone(),
                            );
                        }
                    }
                }
            }
            if !is_final {
                continue;
            }
            rep.ev("bmca_compared");
            if gap > 1 {
                rep.ev(&format!("bmca_compared_masters_announcing_every_{gap}_intervals"));
            }
            // expectation
            let ports: Vec<PortIn> = (0..case.n_ports)
                .map(|i| PortIn {
                    number: (i + 1) as u16,
                    state: prior[i],
                    master_only: case.master_only.get(i).copied().unwrap_or(false),
                    masters: phase.iter().filter(|m| m.port == i).map(ann_of).collect(),
                })
                .collect();
            let own_now = Own { p2: 128, ..own };
            let exp = decide(&own_now, &ports);
            let got = read_outcome(&node);
            out.ambiguous |= exp.ambiguous;
            out.codes = exp.codes.clone();
            for c in &exp.codes {
                rep.ev(&format!("code_{c:?}"));
            }
            let mut mism: Vec<(String, String)> = vec![];
            if !exp.ambiguous {
                if got.states != exp.states {
                    mism.push(("port-states".into(), format!("phase {pi}: port states {:?}, IEEE decision {:?} -> {:?} (prior {:?})", got.states, exp.codes, exp.states, prior)));
                }
                let want_steps = exp.steps_removed.unwrap_or(prev_steps);
                if got.steps_removed != want_steps {
                    mism.push(("steps-removed".into(), format!("phase {pi}: currentDS.stepsRemoved {}, expected {want_steps} (codes {:?})", got.steps_removed, exp.codes)));
                }
                let want_parent = exp.parent.unwrap_or(prev_parent);
                let mut wp = want_parent;
                let mut gp = got.parent;
                // reserved accuracy values are not preserved by the data model (reserved aside)
                if crate::c04::accuracy_is_reserved(wp.3) {
                    wp.3 = 0;
                    if crate::c04::accuracy_is_reserved(gp.3) {
                        gp.3 = 0;
                    }
                }
                if gp != wp {
                    mism.push(("parent-ds".into(), format!("phase {pi}: parentDS {:?}, expected {:?} (codes {:?})", got.parent, want_parent, exp.codes)));
                }
                let want_tp = match exp.time_props {
                    Some(Some(a)) => Some(tp_of_ann(&a)),
                    Some(None) => Some((Some(37), 1, true, true, true, 0x20)),
                    None => prev_expected_tp,
                };
                if let Some(w) = want_tp {
                    if got.tp != w {
                        let clause = match exp.time_props {
                            Some(None) => "time-properties|M1M2-not-own",
                            Some(Some(_)) => "time-properties|S1",
                            None => "time-properties|untouched",
                        };
                        mism.push((clause.into(), format!("phase {pi}: timePropertiesDS {:?}, expected {:?} (codes {:?})", got.tp, w, exp.codes)));
                    }
                }
                prev_expected_tp = Some(got.tp);
                prev_parent = got.parent;
                prev_steps = got.steps_removed;
            } else {
                rep.ev("ambiguous_case");
                prev_expected_tp = Some(got.tp);
                prev_parent = got.parent;
                prev_steps = got.steps_removed;
            }
            // a mismatch must persist over a further round (transient foreign-master bookkeeping is C06's)
            let hard: Vec<_> = mism.iter().filter(|(c, _)| c != "time-properties|M1M2-not-own").cloned().collect();
            if !hard.is_empty() && extra_rounds < 2 && gap == 1 {
                extra_rounds += 1;
                continue;
            }
            out.mismatch.extend(mism);
            out.outcome = Some(got);
            break;
        }
    }
    out
}

pub fn accuracy_from(code: u8) -> statime::config::ClockAccuracy {
    use statime::config::ClockAccuracy as A;
    match code {
        0x20 => A::NS25,
        0x21 => A::NS100,
        0x23 => A::US1,
        0x31 => A::SGT10,
        0xfe => A::Unknown,
        _ => A::Unknown,
    }
}

pub fn run_case(rep: &mut Report, case: &Case) -> bool {
    let replay = serde_json::to_value(case).unwrap();
    let base = run_once(rep, case, &case.port_order, case.arrival_seed, &replay);
    let mut nontrivial = false;
    for (clause, what) in &base.mismatch {
        rep.violation(&format!("C05|{clause}"), what, replay.clone());
    }
    if base.codes.iter().any(|c| !matches!(c, Code::Stay)) {
        nontrivial = true;
    }
    // metamorphic: other port order + other arrival order must give the same outcome
    if case.n_ports > 1 || case.phases.iter().any(|p| p.len() > 1) {
        let mut order2 = case.port_order.clone();
        order2.reverse();
        let alt = run_once(rep, case, &order2, case.arrival_seed ^ 0x9e37_79b9, &replay);
        rep.ev("permutation_pairs");
        if !base.ambiguous && !alt.ambiguous {
            if let (Some(a), Some(b)) = (&base.outcome, &alt.outcome) {
                if a != b {
                    rep.violation("C05|order-dependence", &format!("outcome depends on port/announce order: {:?} vs {:?}", a, b), replay.clone());
                }
            }
        }
    }
    nontrivial
}

const IDS: [u8; 3] = [0x30, 0x50, 0x70];
const SENDERS: [u8; 4] = [0x10, 0x40, 0x60, 0x90];

/// grandmaster attributes are a function of the grandmaster identity within a case (a clock has
/// one set of attributes); `salt` varies the function between cases
fn gm_attrs(gm_id: u8, salt: u64) -> (u8, u8, u8, u16, u8) {
    let h = crate::report::fnv(&[gm_id, salt as u8, (salt >> 8) as u8, (salt >> 16) as u8]);
    (
        [127u8, 128][(h & 1) as usize],
        [6u8, 127, 128, 248][((h >> 1) & 3) as usize],
        [0x20u8, 0xfe][((h >> 3) & 1) as usize],
        [0x4000u16, 0xffff][((h >> 4) & 1) as usize],
        [127u8, 128][((h >> 5) & 1) as usize],
    )
}

fn gen_master(rng: &mut StdRng, n_ports: usize, used: &mut Vec<(u8, u16, usize)>, salt: u64) -> Option<MasterSpec> {
    for _ in 0..10 {
        let port = rng.gen_range(0..n_ports);
        let sender_id = SENDERS[rng.gen_range(0..4)];
        let sender_port = rng.gen_range(1..=2);
        if used.iter().any(|u| u.0 == sender_id && u.1 == sender_port) {
            continue;
        }
        used.push((sender_id, sender_port, port));
        let gm_is_sender = rng.gen_bool(0.4);
        let steps = if gm_is_sender { 0 } else { [0u16, 1, 2, 3, 254][rng.gen_range(0..5)] };
        let gm_id = if gm_is_sender { sender_id } else { [0x20u8, 0x40, 0x80, 0x30, 0x50][rng.gen_range(0..5)] };
        let (p1, class, acc, var, p2) = gm_attrs(gm_id, salt);
        return Some(MasterSpec {
            port,
            gm_id,
            p1,
            class,
            acc,
            var,
            p2,
            steps,
            sender_id,
            sender_port,
            utc: [0i16, 37, -5][rng.gen_range(0..3)],
            flags1: rng.gen_range(0..0x40),
            time_source: [0x10u8, 0x20, 0xa0, 0x55][rng.gen_range(0..4)],
        });
    }
    None
}

fn gen_case(rng: &mut StdRng) -> Case {
    let n_ports = [1usize, 1, 2, 2, 3][rng.gen_range(0..5)];
    let n_phases = rng.gen_range(1..=3);
    let mut phases = vec![];
    for _ in 0..n_phases {
        let salt: u64 = rng.gen();
        let n_m = rng.gen_range(0..=3);
        let mut used = vec![];
        let mut ms = vec![];
        for _ in 0..n_m {
            if let Some(m) = gen_master(rng, n_ports, &mut used, salt) {
                ms.push(m);
            }
        }
        phases.push(ms);
    }
    let mut port_order: Vec<usize> = (0..n_ports).collect();
    port_order.shuffle(rng);
    let slave_only = rng.gen_bool(0.15);
    let gap = [1usize, 1, 1, 2, 3][rng.gen_range(0..5)];
    Case {
        own_id: IDS[rng.gen_range(0..3)],
        p1: [127u8, 128][rng.gen_range(0..2)],
        class: if slave_only { 255 } else { [0u8, 1, 6, 127, 128, 248, 254][rng.gen_range(0..7)] },
        acc: [0x20u8, 0xfe][rng.gen_range(0..2)],
        var: [0x4000u16, 0xffff][rng.gen_range(0..2)],
        p2: 128,
        slave_only,
        n_ports,
        master_only: (0..n_ports).map(|_| !slave_only && rng.gen_bool(0.15)).collect(),
        pre_master: (0..n_ports).map(|_| !slave_only && rng.gen_bool(0.3)).collect(),
        phases,
        rounds: if gap == 3 { 10 } else { 9 },
        port_order,
        arrival_seed: rng.gen(),
        gap,
        faulty_port: if rng.gen_bool(0.2) { Some(rng.gen_range(0..n_ports)) } else { None },
    }
}

pub fn run(rep: &mut Report, tier: &str, seed: u64, shard: (u32, u32), replay: Option<&str>) {
    rep.rule = "instances with 1-3 ports (normal / master-only / slave-only, optionally pre-forced Master) and up to three scripted foreign masters per phase drawn from small exhaustive value domains; each phase = 9 rounds of (one Announce per master, one PtpInstance::bmca), 1-3 phases so that every prior port state occurs; the 1-port/1-master slice is enumerated completely; every case is run under two port/arrival orders; distinct = distinct cases; non-trivial = at least one port received a state decision other than 'stay listening'".into();
    rep.require(&["bmca_compared", "permutation_pairs", "code_M1", "code_M2", "code_M3", "code_P1", "code_P2", "code_S1", "code_Stay"]);
    match crate::refbmca::selftest() {
        Ok(n) => {
            rep.extra.insert("refbmca_selftest_vectors".into(), json!(n));
        }
        Err(e) => {
            rep.inconclusive(&format!("refbmca selftest failed: {e}"));
            return;
        }
    }
    if let Some(path) = replay {
        let v: serde_json::Value = serde_json::from_str(&std::fs::read_to_string(path).unwrap()).unwrap();
        if let Ok(c) = serde_json::from_value::<Case>(v["case"].clone()) {
            run_case(rep, &c);
        }
        println!("replay: {} finding(s)", rep.findings.len());
        for f in rep.findings.values() {
            println!("  {}", f.what);
        }
        return;
    }
    let mut rng = StdRng::seed_from_u64(seed ^ 0xc05 ^ ((shard.0 as u64) << 40));
    // exhaustive slice: one port, one master, all attribute combinations
    let mut idx = 0u64;
    let mut enumerated = 0u64;
    let thorough = tier == "thorough";
    for own_id in IDS {
        for p1 in [127u8, 128] {
            for class in [0u8, 1, 6, 127, 128, 248] {
                for acc in [0x20u8, 0xfe] {
                    for m_p1 in [127u8, 128] {
                        for m_class in [0u8, 6, 127, 128, 248] {
                            for m_acc in [0x20u8, 0xfe] {
                                for m_var in [0x4000u16, 0xffff] {
                                    for m_p2 in [127u8, 128] {
                                        for steps in [0u16, 1, 2, 3, 254] {
                                            for sender in SENDERS {
                                                for gm_same_as_own in [false, true] {
                                                    idx += 1;
                                                    if idx % shard.1 as u64 != shard.0 as u64 {
                                                        continue;
                                                    }
                                                    // quick tier: every 6th point of the slice
                                                    if !thorough && idx % 6 != (seed % 6) {
                                                        continue;
                                                    }
                                                    let m = MasterSpec {
                                                        port: 0,
                                                        gm_id: if gm_same_as_own { own_id } else { 0x20 + (steps as u8 % 2) * 0x40 },
                                                        p1: m_p1,
                                                        class: m_class,
                                                        acc: m_acc,
                                                        var: m_var,
                                                        p2: m_p2,
                                                        steps,
                                                        sender_id: sender,
                                                        sender_port: 1,
                                                        utc: 37,
                                                        flags1: 0x2c,
                                                        time_source: 0x20,
                                                    };
                                                    let case = Case {
                                                        own_id,
                                                        p1,
                                                        class,
                                                        acc,
                                                        var: 0xffff,
                                                        p2: 128,
                                                        slave_only: false,
                                                        n_ports: 1,
                                                        master_only: vec![false],
                                                        pre_master: vec![idx % 2 == 0],
                                                        phases: vec![vec![m]],
                                                        rounds: 3,
                                                        port_order: vec![0],
                                                        arrival_seed: idx,
                                                        gap: 1,
                                                        faulty_port: None,
                                                    };
                                                    if run_case(rep, &case) {
                                                        rep.distinct_case(&format!("{case:?}"));
                                                    }
                                                    rep.evaluations += 1;
                                                    enumerated += 1;
                                                }
                                            }
                                        }
                                    }
                                }
                            }
                        }
                    }
                }
            }
        }
    }
    rep.extra.insert("one_port_one_master_slice_points_run".into(), json!(enumerated));
    rep.extra.insert("one_port_one_master_slice_size".into(), json!(idx));
    rep.extra.insert("slice_exhaustive".into(), json!(thorough));
    let n: u64 = if thorough { 400_000 } else { 12_000 };
    let budget = Budget::new(n, if thorough { 700.0 } else { 20.0 });
    let mut i = 0;
    while budget.left(i) {
        i += 1;
        let case = gen_case(&mut rng);
        if i <= 2 {
            rep.sample(serde_json::to_value(&case).unwrap());
        }
        if run_case(rep, &case) {
            rep.distinct_case(&format!("{case:?}"));
        }
        rep.evaluations += 1;
    }
}
