//! C01 - network converges to one grandmaster and a loop-free master/slave tree.
//! Oracle: structural checks on observed port states / data sets of real instances in a simulated
//! network + expected grandmaster from the reference data set comparison.

use rand::rngs::StdRng;
use rand::{Rng, SeedableRng};
use serde_json::json;
use statime::observability::port::PortState;

use crate::drive::*;
use crate::node::*;
use crate::refbmca::{self, CmpSet, Own};
use crate::report::*;
use crate::sim::*;

pub const I_NS: u64 = 1_000_000_000;

#[derive(Clone, Debug, serde::Serialize, serde::Deserialize)]
pub struct NodeSpec {
    pub id: u8,
    pub p1: u8,
    pub class: u8,
    pub slave_only: bool,
    pub n_ports: usize,
    pub bmca_phase_ns: u64,
    #[serde(default)]
    pub path_trace: bool,
    #[serde(default = "default_p2")]
    pub p2: u8,
    /// added to the sequenceId of the node's Announces: the 0x7fff->0x8000 and 0xffff->0 crossings
    /// fall into the observed part of the run
    #[serde(default)]
    pub ann_seq_offset: u16,
}

fn default_p2() -> u8 {
    128
}

#[derive(Clone, Debug, serde::Serialize, serde::Deserialize)]
pub struct LinkSpec {
    pub ends: Vec<(usize, usize)>,
    pub delay_ns: u64,
    pub jitter_ns: u64,
    pub initially_up: bool,
}

#[derive(Clone, Debug, serde::Serialize, serde::Deserialize)]
pub enum Fault {
    None,
    CutLink(usize),
    RestoreLink(usize),
    SilenceNode(usize),
    /// change clockClass of a node at run time
    Quality(usize, u8),
    /// a slave-only node becomes master-capable at run time (set_slave_only(false), clockClass 248)
    MasterCapable(usize),
}

#[derive(Clone, Debug, serde::Serialize, serde::Deserialize)]
pub struct Topo {
    pub nodes: Vec<NodeSpec>,
    pub links: Vec<LinkSpec>,
    pub loss: f64,
    pub seed: u64,
    pub fault: Fault,
    pub family: String,
    /// logAnnounceInterval of every port in the network (settle bounds stay in seconds, i.e. are
    /// only more generous for sub-second intervals)
    #[serde(default)]
    pub log_announce: i8,
}

pub fn build_sim(t: &Topo) -> Result<Sim, PanicInfo> {
    let mut sim = Sim::new(t.seed);
    sim.keep_log = true;
    for (i, ns) in t.nodes.iter().enumerate() {
        let mut b = Build::new(ns.id);
        b.n_ports = ns.n_ports;
        b.priority1 = ns.p1;
        b.priority2 = ns.p2;
        b.clock_class = ns.class;
        b.slave_only = ns.slave_only;
        b.path_trace = ns.path_trace;
        b.log_announce = t.log_announce;
        b.seed = t.seed.wrapping_add(i as u64 * 7919);
        b.rec_reply = ReplyMode::EchoDelay;
        let built = b.build()?;
        let idx = sim.add_node(built.node, ns.bmca_phase_ns);
        while sim.announce_seq_offset.len() <= idx {
            sim.announce_seq_offset.push(0);
        }
        sim.announce_seq_offset[idx] = ns.ann_seq_offset;
    }
    for l in &t.links {
        let li = sim.add_link(l.ends.clone(), l.delay_ns, l.jitter_ns, t.loss);
        sim.links[li].up = l.initially_up;
    }
    Ok(sim)
}

fn own_of(ns: &NodeSpec, class_now: u8) -> Own {
    Own { id: clock_id(ns.id).0, p1: ns.p1, class: class_now, acc: 0xfe, var: 0x8000 - 23 * 256, p2: ns.p2, slave_only: ns.slave_only }
}

/// connected components over alive nodes and up links
fn components(sim: &Sim) -> Vec<Vec<usize>> {
    let n = sim.nodes.len();
    let mut comp: Vec<usize> = (0..n).collect();
    fn find(c: &mut Vec<usize>, x: usize) -> usize {
        let mut r = x;
        while c[r] != r {
            r = c[r];
        }
        c[x] = r;
        r
    }
    for l in &sim.links {
        if !l.up {
            continue;
        }
        let alive: Vec<usize> = l.ends.iter().map(|e| e.0).filter(|n| sim.nodes[*n].alive).collect();
        for w in alive.windows(2) {
            let (a, b) = (find(&mut comp, w[0]), find(&mut comp, w[1]));
            if a != b {
                comp[a] = b;
            }
        }
    }
    let mut out: std::collections::BTreeMap<usize, Vec<usize>> = Default::default();
    for i in 0..n {
        if sim.nodes[i].alive {
            let r = find(&mut comp, i);
            out.entry(r).or_default().push(i);
        }
    }
    out.into_values().collect()
}

pub struct Verdict {
    pub problems: Vec<(String, String)>,
}

/// structural check of the converged network
pub fn check_structure(sim: &Sim, t: &Topo, classes: &[u8]) -> Verdict {
    let mut problems = vec![];
    let id_of = |n: usize| clock_id(t.nodes[n].id).0;
    let node_by_clock = |c: [u8; 8]| (0..t.nodes.len()).find(|&i| id_of(i) == c);
    for comp in components(sim) {
        let capable: Vec<usize> = comp.iter().copied().filter(|&n| !t.nodes[n].slave_only).collect();
        if capable.is_empty() {
            continue;
        }
        // expected grandmaster: best own data set in the component
        let mut gm = capable[0];
        for &c in &capable[1..] {
            let a = CmpSet::of_own(&own_of(&t.nodes[c], classes[c]));
            let b = CmpSet::of_own(&own_of(&t.nodes[gm], classes[gm]));
            if refbmca::a_is_better(refbmca::compare(&a, &b)) {
                gm = c;
            }
        }
        let gm_id = id_of(gm);
        for &n in &comp {
            let node = &sim.nodes[n].node;
            let inst = node.inst();
            let pd = inst.parent_ds();
            let steps = inst.current_ds(None).steps_removed;
            let connected_ports: Vec<usize> = (0..node.n_ports())
                .filter(|&p| match sim.nodes[n].link_of_port[p] {
                    Some(li) => sim.links[li].up,
                    None => false,
                })
                .collect();
            let slave_ports: Vec<usize> = (0..node.n_ports()).filter(|&p| node.port_state(p) == PortState::Slave).collect();
            let barrier = (1..=127).contains(&classes[n]) && n != gm;
            if n == gm {
                if !slave_ports.is_empty() {
                    problems.push(("gm-has-slave-port".into(), format!("node {n} (expected grandmaster) has slave port(s) {slave_ports:?}")));
                }
                if pd.grandmaster_identity.0 != gm_id || steps != 0 || pd.parent_port_identity.clock_identity.0 != gm_id {
                    problems.push(("gm-datasets".into(), format!("node {n} is the best clock but its parentDS names grandmaster {:?} (steps {steps})", pd.grandmaster_identity.0)));
                }
                continue;
            }
            if barrier {
                // a better-than-slave clock (class < 128) that is not the best: never slave, passive
                // towards the better master
                if !slave_ports.is_empty() {
                    problems.push(("barrier-slave".into(), format!("node {n} (clockClass {}) has a slave port", classes[n])));
                }
                for &p in &connected_ports {
                    let s = node.port_state(p);
                    if s != PortState::Passive && s != PortState::Master {
                        problems.push(("barrier-port-state".into(), format!("node {n} (clockClass {}) port {p} is {}", classes[n], state_name(s))));
                    }
                }
                continue;
            }
            // a slave-only instance whose own data set beats the grandmaster's gets a "master"
            // recommendation and, per the slave-only state machine, keeps listening: not judged
            if t.nodes[n].slave_only {
                let a = CmpSet::of_own(&own_of(&t.nodes[n], classes[n]));
                let b = CmpSet::of_own(&own_of(&t.nodes[gm], classes[gm]));
                if refbmca::a_is_better(refbmca::compare(&a, &b)) {
                    continue;
                }
            }
            // ordinary/boundary clock that may be slave
            if pd.grandmaster_identity.0 != gm_id {
                problems.push(("wrong-grandmaster".into(), format!("node {n} names grandmaster {:?}, best clock of its component is node {gm} ({:?})", pd.grandmaster_identity.0, gm_id)));
                continue;
            }
            if slave_ports.len() != 1 {
                problems.push(("slave-port-count".into(), format!("node {n} has {} slave ports ({slave_ports:?})", slave_ports.len())));
                continue;
            }
            let sp = slave_ports[0];
            // parent must be a master port on the same link
            let pc = pd.parent_port_identity.clock_identity.0;
            let pn = pd.parent_port_identity.port_number as usize;
            match node_by_clock(pc) {
                None => problems.push(("parent-unknown".into(), format!("node {n} has unknown parent {pc:?}"))),
                Some(pnode) => {
                    let same_link = pn >= 1
                        && pn <= sim.nodes[pnode].node.n_ports()
                        && sim.nodes[pnode].link_of_port[pn - 1].is_some()
                        && sim.nodes[pnode].link_of_port[pn - 1] == sim.nodes[n].link_of_port[sp];
                    if !same_link || !sim.nodes[pnode].alive {
                        problems.push(("parent-not-on-link".into(), format!("node {n} slave port {sp}: parent (node {pnode}, port {pn}) is not on its link / not alive")));
                    } else {
                        if sim.nodes[pnode].node.port_state(pn - 1) != PortState::Master {
                            problems.push(("parent-port-not-master".into(), format!("node {n}: parent port (node {pnode}, port {pn}) is {}", state_name(sim.nodes[pnode].node.port_state(pn - 1)))));
                        }
                        let psteps = sim.nodes[pnode].node.inst().current_ds(None).steps_removed;
                        if steps != psteps + 1 {
                            problems.push(("steps-removed".into(), format!("node {n} stepsRemoved {steps}, parent node {pnode} has {psteps}")));
                        }
                    }
                }
            }
            // chain reaches the grandmaster
            let mut cur = n;
            let mut hops = 0;
            loop {
                if cur == gm {
                    break;
                }
                hops += 1;
                if hops > t.nodes.len() + 1 {
                    problems.push(("parent-chain-loop".into(), format!("parent chain of node {n} does not reach the grandmaster")));
                    break;
                }
                let c = sim.nodes[cur].node.inst().parent_ds().parent_port_identity.clock_identity.0;
                match node_by_clock(c) {
                    Some(nx) if nx != cur => cur = nx,
                    _ => {
                        problems.push(("parent-chain-broken".into(), format!("parent chain of node {n} stops at node {cur}")));
                        break;
                    }
                }
            }
        }
    }
    // one master port per segment with a master-capable instance attached
    for (li, l) in sim.links.iter().enumerate() {
        if !l.up {
            continue;
        }
        let alive_ends: Vec<(usize, usize)> = l.ends.iter().copied().filter(|e| sim.nodes[e.0].alive).collect();
        if !alive_ends.iter().any(|e| !t.nodes[e.0].slave_only) {
            continue;
        }
        let masters = alive_ends.iter().filter(|e| sim.nodes[e.0].node.port_state(e.1) == PortState::Master).count();
        if masters != 1 {
            let states: Vec<String> = alive_ends.iter().map(|e| format!("n{}p{}={}", e.0, e.1, state_name(sim.nodes[e.0].node.port_state(e.1)))).collect();
            let same_inst = alive_ends.iter().any(|a| alive_ends.iter().any(|b| a.0 == b.0 && a.1 != b.1));
            problems.push((format!("segment-master-count|{}", if same_inst { "same-instance-ports" } else { "distinct-instances" }), format!("link {li} has {masters} master ports: {states:?}")));
        }
    }
    Verdict { problems }
}

fn last_state_change(sim: &Sim, since: u64) -> Option<u64> {
    sim.log.iter().filter(|e| e.t >= since && matches!(e.kind, LogKind::StateChange { .. })).map(|e| e.t).max()
}

pub fn run_case(rep: &mut Report, t: &Topo, verbose: bool) {
    let replay = serde_json::to_value(t).unwrap();
    // "two ports of one instance on one segment": the interesting BMCA phases are those inside the
    // delivery-jitter window of the instance's own Announces. A first pass (same seed, hence the
    // same timer draws) measures the Announce arrival phase, the real run puts the BMCA there.
    let mut t_owned;
    let t = if t.family == "same-instance-two-ports" && t.nodes[0].bmca_phase_ns >= 2 * I_NS {
        t_owned = t.clone();
        t_owned.nodes[0].bmca_phase_ns = 500_000_000;
        let mut probe = match build_sim(&t_owned) {
            Ok(s) => s,
            Err(_) => return,
        };
        probe.run_until(12 * I_NS);
        let first = probe.log.iter().find(|e| e.node == 0 && matches!(e.kind, LogKind::Tx { msg_type: crate::refcodec::T_ANNOUNCE, .. })).map(|e| e.t);
        let l = &t.links[0];
        let within = t.nodes[0].bmca_phase_ns - 2 * I_NS; // 0..=1000 permille of the jitter window
        if let Some(ta) = first {
            let arrival = ta + l.delay_ns + l.jitter_ns * within / 1000;
            t_owned.nodes[0].bmca_phase_ns = arrival % I_NS;
        }
        rep.ev("same_instance_phase_aligned");
        &t_owned
    } else {
        t
    };
    let mut sim = match build_sim(t) {
        Ok(s) => s,
        Err(p) => {
            rep.violation(&format!("C01|panic|{}|{}", p.site(), p.class()), &format!("setup panicked: {}", p.describe()), replay);
            return;
        }
    };
    let n = t.nodes.len() as u64;
    let settle0 = (12 + 4 * n) * I_NS;
    // VP_C01_SETTLE_EXTRA (intervals) is a diagnosis aid for replays only; unset in every registered command
    let settle1 = (16 + 4 * n + std::env::var("VP_C01_SETTLE_EXTRA").ok().and_then(|v| v.parse::<u64>().ok()).unwrap_or(0)) * I_NS;
    let observe = 20 * I_NS;
    let mut classes: Vec<u8> = t.nodes.iter().map(|n| n.class).collect();
    let fam = t.family.clone();
    let mut phase = |sim: &mut Sim, rep: &mut Report, label: &str, settle: u64, classes: &[u8], t: &Topo| -> bool {
        let start = sim.now;
        sim.run_until(start + settle);
        if let Some((node, port, call, p)) = &sim.panic {
            rep.violation(&format!("C01|panic|{}|{}", p.site(), p.class()), &format!("{label}: node {node} port {port} {call} panicked: {}", p.describe()), replay.clone());
            return false;
        }
        let conv = last_state_change(sim, start).map(|x| x - start).unwrap_or(0);
        let e = rep.extra.entry(format!("max_convergence_ns_{label}")).or_insert(json!(0));
        if conv > e.as_u64().unwrap_or(0) {
            *e = json!(conv);
        }
        let mut v = check_structure(sim, t, classes);
        if !v.problems.is_empty() && label == "after-fault" && fam == "full-mesh" {
            // Dense meshes: after the loss of the grandmaster statime can count stepsRemoved up
            // to 255 although the path trace option is on (Appendix C); re-convergence is then
            // bounded by that count, not by the diameter. Recorded, and judged at the long bound.
            rep.ev("full_mesh_slow_reconvergence");
            rep.observe("full mesh: not re-converged at the (16+4n)-interval bound after a fault; judged again 1200 intervals later (count to infinity despite path trace)");
            let t_long = sim.now + 1200 * I_NS;
            sim.run_until(t_long);
            if let Some((node, port, call, p)) = &sim.panic {
                rep.violation(&format!("C01|panic|{}|{}", p.site(), p.class()), &format!("{label}: node {node} port {port} {call} panicked: {}", p.describe()), replay.clone());
                return false;
            }
            let conv = last_state_change(sim, start).map(|x| x - start).unwrap_or(0);
            let e = rep.extra.entry("max_convergence_ns_after-fault_full-mesh_long".to_string()).or_insert(json!(0));
            if conv > e.as_u64().unwrap_or(0) {
                *e = json!(conv);
            }
            v = check_structure(sim, t, classes);
        }
        rep.ev(&format!("structure_checked_{label}"));
        for (clause, what) in v.problems {
            rep.violation(&format!("C01|{label}|{clause}|{fam}"), &format!("{label} (t={} s): {what}", sim.now / I_NS), replay.clone());
        }
        // steady state must not flap
        let t0 = sim.now;
        let log_mark = sim.log.len();
        sim.run_until(t0 + observe);
        if let Some((node, port, call, p)) = &sim.panic {
            rep.violation(&format!("C01|panic|{}|{}", p.site(), p.class()), &format!("{label}: node {node} port {port} {call} panicked: {}", p.describe()), replay.clone());
            return false;
        }
        let flaps: Vec<&LogEv> = sim.log[log_mark..].iter().filter(|e| matches!(e.kind, LogKind::StateChange { .. })).collect();
        rep.ev(&format!("flap_window_{label}"));
        if !flaps.is_empty() {
            let f = flaps[0];
            rep.violation(
                &format!("C01|{label}|flap|{fam}"),
                &format!("{label}: {} port state changes in the 20-interval observation window after the settle bound, first: t={:.3}s node {} port {} {:?}", flaps.len(), f.t as f64 / 1e9, f.node, f.port, f.kind),
                replay.clone(),
            );
        }
        true
    };
    if !phase(&mut sim, rep, "initial", settle0, &classes, t) {
        return;
    }
    let mut t_after = t.clone();
    match &t.fault {
        Fault::None => {}
        f => {
            match f {
                Fault::CutLink(l) => sim.set_link(*l, false),
                Fault::RestoreLink(l) => sim.set_link(*l, true),
                Fault::SilenceNode(n) => sim.silence(*n),
                Fault::Quality(n, c) => {
                    classes[*n] = *c;
                    if *c < 128 {
                        rep.ev("fault_quality_change_into_class_below_128");
                    }
                    let mut q = sim.nodes[*n].node.inst().default_ds().clock_quality;
                    q.clock_class = *c;
                    let _ = sim.nodes[*n].node.set_clock_quality(q);
                }
                Fault::MasterCapable(n) => {
                    classes[*n] = 248;
                    t_after.nodes[*n].slave_only = false;
                    t_after.nodes[*n].class = 248;
                    let mut q = sim.nodes[*n].node.inst().default_ds().clock_quality;
                    q.clock_class = 248;
                    let _ = sim.nodes[*n].node.set_clock_quality(q);
                    let _ = sim.nodes[*n].node.set_slave_only(false);
                    rep.ev("fault_slave_only_node_made_master_capable");
                }
                Fault::None => {}
            }
            rep.ev("fault_applied");
            phase(&mut sim, rep, "after-fault", settle1, &classes, &t_after);
        }
    }
    rep.extra.insert("last_order_hash".into(), json!(sim.order_hash));
    rep.distinct_case(&format!("order{}", sim.order_hash));
    rep.evn("sim_events", sim.events_processed);
    if verbose {
        for e in &sim.log {
            if matches!(e.kind, LogKind::StateChange { .. }) {
                eprintln!("{:.3}s n{} p{} {:?}", e.t as f64 / 1e9, e.node, e.port, e.kind);
            }
        }
    }
}

fn node_spec(rng: &mut StdRng, id: u8, n_ports: usize, allow_low_class: bool) -> NodeSpec {
    let class = if allow_low_class && rng.gen_bool(0.15) { [6u8, 7, 127][rng.gen_range(0..3)] } else { [128u8, 187, 248][rng.gen_range(0..3)] };
    // priority1 ties are frequent on purpose: priority2 (and then the identity) decides
    NodeSpec { id, p1: [100u8, 128, 128, 128, 200][rng.gen_range(0..5)], class, slave_only: false, n_ports, bmca_phase_ns: rng.gen_range(0..I_NS), path_trace: false, p2: [128u8, 128, 10, 50, 200, 255][rng.gen_range(0..6)], ann_seq_offset: match rng.gen_range(0..10) {
        0..=3 => 0,
        4..=6 => 0x8000u16.wrapping_sub(rng.gen_range(5..90)),
        _ => 0u16.wrapping_sub(rng.gen_range(5..90)),
    } }
}

pub fn gen_topo(rng: &mut StdRng) -> Topo {
    let family = rng.gen_range(0..8);
    let mut nodes: Vec<NodeSpec> = vec![];
    let mut links: Vec<LinkSpec> = vec![];
    let link = |rng: &mut StdRng, ends: Vec<(usize, usize)>| LinkSpec { ends, delay_ns: rng.gen_range(1_000..500_000), jitter_ns: rng.gen_range(0..50_000), initially_up: true };
    let name;
    match family {
        0 => {
            // chain of boundary clocks with ordinary clocks at the ends
            name = "chain";
            let n = rng.gen_range(2..=6);
            for i in 0..n {
                let ports = if i == 0 || i == n - 1 { 1 } else { 2 };
                nodes.push(node_spec(rng, 0x10 + i as u8, ports, ports == 1));
            }
            for i in 0..n - 1 {
                let pa = if i == 0 { 0 } else { 1 };
                links.push(link(rng, vec![(i, pa), (i + 1, 0)]));
            }
        }
        1 => {
            // star on a shared segment
            name = "segment";
            let n = rng.gen_range(2..=6);
            for i in 0..n {
                nodes.push(node_spec(rng, 0x10 + i as u8, 1, true));
            }
            links.push(link(rng, (0..n).map(|i| (i, 0)).collect()));
        }
        2 => {
            // ring of boundary clocks
            name = "ring";
            let n = rng.gen_range(3..=6);
            for i in 0..n {
                nodes.push(node_spec(rng, 0x10 + i as u8, 2, false));
            }
            for i in 0..n {
                links.push(link(rng, vec![(i, 1), ((i + 1) % n, 0)]));
            }
        }
        3 => {
            // two ports of one instance on one segment (+ others)
            name = "same-instance-two-ports";
            let n_other = rng.gen_range(0..=3);
            nodes.push(node_spec(rng, 0x10, 2, false));
            for i in 0..n_other {
                nodes.push(node_spec(rng, 0x20 + i as u8, 1, true));
            }
            let mut ends = vec![(0, 0), (0, 1)];
            for i in 0..n_other {
                ends.push((1 + i, 0));
            }
            links.push(link(rng, ends));
        }
        4 => {
            // boundary clock with 3 ports in the middle of a star of ordinary clocks, one slave-only
            name = "star-bc";
            nodes.push(node_spec(rng, 0x10, 3, false));
            for i in 0..3 {
                let mut ns = node_spec(rng, 0x20 + i as u8, 1, true);
                if i == 2 && rng.gen_bool(0.5) {
                    ns.slave_only = true;
                    ns.class = 255;
                    ns.p1 = 255;
                }
                nodes.push(ns);
            }
            for i in 0..3 {
                links.push(link(rng, vec![(0, i), (1 + i, 0)]));
            }
        }
        7 => {
            // full mesh of boundary clocks over point-to-point links, the ports of every node in a
            // random order: each node hears a candidate on every port
            name = "full-mesh";
            let n = rng.gen_range(4..=5usize);
            for i in 0..n {
                nodes.push(node_spec(rng, 0x10 + i as u8, n - 1, false));
            }
            let mut free: Vec<Vec<usize>> = (0..n)
                .map(|_| {
                    let mut p: Vec<usize> = (0..n - 1).collect();
                    for k in (1..p.len()).rev() {
                        p.swap(k, rng.gen_range(0..=k));
                    }
                    p
                })
                .collect();
            for a in 0..n {
                for b in a + 1..n {
                    let pa = free[a].pop().unwrap();
                    let pb = free[b].pop().unwrap();
                    links.push(link(rng, vec![(a, pa), (b, pb)]));
                }
            }
        }
        6 => {
            // a silent segment: only slave-only clocks until one of them is made master-capable
            name = "slave-only-segment";
            let n = rng.gen_range(1..=4);
            let mut ends = vec![];
            for i in 0..n {
                let mut ns = node_spec(rng, 0x30 + i as u8, 1, false);
                ns.slave_only = true;
                ns.class = 255;
                nodes.push(ns);
                ends.push((i, 0));
            }
            links.push(link(rng, ends));
        }
        _ => {
            // mixed: two segments joined by a boundary clock, plus a redundant boundary clock
            name = "mixed";
            nodes.push(node_spec(rng, 0x10, 2, false));
            nodes.push(node_spec(rng, 0x11, 2, false));
            nodes.push(node_spec(rng, 0x20, 1, true));
            nodes.push(node_spec(rng, 0x21, 1, true));
            if rng.gen_bool(0.5) {
                let mut ns = node_spec(rng, 0x22, 1, false);
                ns.slave_only = true;
                ns.class = 255;
                ns.p1 = 255;
                nodes.push(ns);
            }
            let mut seg_a = vec![(0, 0), (1, 0), (2, 0)];
            let seg_b = vec![(0, 1), (1, 1), (3, 0)];
            if nodes.len() == 5 {
                seg_a.push((4, 0));
            }
            links.push(link(rng, seg_a));
            links.push(link(rng, seg_b));
        }
    }
    // Topologies with redundant paths count to infinity (stepsRemoved climbing to 255) after the
    // grandmaster disappears unless the path trace option breaks the loop; that is protocol
    // behaviour, not statime's, so those families run with path trace enabled.
    if family == 2 || family == 5 || family == 7 {
        for n in nodes.iter_mut() {
            n.path_trace = true;
        }
    }
    // make rankings unique enough: the best must be unique by construction of ids (tie-break)
    let n_nodes = nodes.len();
    let n_links = links.len();
    // the phase of the BMCA relative to announce traffic matters for same-instance ports: sweep it
    if family == 3 {
        // values >= 2 s encode "align with the Announce arrival window", see run_case
        nodes[0].bmca_phase_ns = if rng.gen_bool(0.7) { 2 * I_NS + rng.gen_range(0..=1000) } else { rng.gen_range(0..I_NS) };
    }
    let so: Vec<usize> = (0..n_nodes).filter(|&n| nodes[n].slave_only).collect();
    let fault = match if family == 6 { 6 } else { rng.gen_range(0..6) } {
        6 => Fault::MasterCapable(so[rng.gen_range(0..so.len())]),
        5 if !so.is_empty() => Fault::MasterCapable(so[0]),
        0 => Fault::None,
        1 => Fault::CutLink(rng.gen_range(0..n_links)),
        2 => {
            let l = rng.gen_range(0..n_links);
            links[l].initially_up = false;
            Fault::RestoreLink(l)
        }
        3 => Fault::SilenceNode(rng.gen_range(0..n_nodes)),
        _ => {
            let n = rng.gen_range(0..n_nodes);
            if nodes[n].slave_only || nodes[n].class < 128 {
                Fault::None
            } else {
                // a single-port clock may also be promoted into the better-than-slave classes at
                // run time: it becomes grandmaster if that makes it the best clock, otherwise it
                // must leave the slave state (decision P1) and stay passive
                let low = nodes[n].n_ports == 1 && rng.gen_bool(0.4);
                Fault::Quality(n, if low { [6u8, 7, 127][rng.gen_range(0..3)] } else { [128u8, 187, 248, 135][rng.gen_range(0..4)] })
            }
        }
    };
    let log_announce = [0i8, 0, 0, -1, -2][rng.gen_range(0..5)];
    Topo { nodes, links, loss: 0.0, seed: rng.gen(), fault, family: name.to_string(), log_announce }
}

/// Many grandmasters, one after the other, on one segment: each new one must be found by the clock
/// that has been there all along, however many it has seen come and go before.
fn succession(rep: &mut Report, seed: u64) {
    let replay = json!({"succession_seed": seed});
    let mut rng = StdRng::seed_from_u64(seed);
    let n_masters = rng.gen_range(9..=12usize);
    let mut sim = Sim::new(seed);
    sim.keep_log = true;
    let mut ob = Build::new(0x70);
    ob.priority1 = 250;
    ob.seed = seed;
    let Ok(o) = ob.build() else { return };
    let oi = sim.add_node(o.node, rng.gen_range(0..I_NS));
    let mut ends = vec![(oi, 0)];
    let mut ms = vec![];
    for k in 0..n_masters {
        let mut b = Build::new(0x10 + k as u8);
        b.priority1 = [100u8, 90, 110, 60][k % 4];
        b.seed = seed.wrapping_add(1 + k as u64);
        let Ok(m) = b.build() else { return };
        let mi = sim.add_node(m.node, rng.gen_range(0..I_NS));
        sim.nodes[mi].muted = true;
        ends.push((mi, 0));
        ms.push(mi);
    }
    sim.add_link(ends, rng.gen_range(1_000..300_000), rng.gen_range(0..20_000), 0.0);
    let id_of = |k: usize| clock_id(0x10 + k as u8).0;
    for (k, &mi) in ms.iter().enumerate() {
        sim.nodes[mi].muted = false;
        let t0 = sim.now;
        sim.run_until(t0 + 20 * I_NS);
        if sim.panic.is_some() {
            return;
        }
        let pd = sim.nodes[oi].node.inst().parent_ds();
        let so = sim.nodes[oi].node.port_state(0);
        let sm = sim.nodes[mi].node.port_state(0);
        rep.ev("succession_step_checked");
        if so != PortState::Slave || pd.grandmaster_identity.0 != id_of(k) || sm != PortState::Master {
            rep.violation(
                "C01|succession|new-grandmaster-not-found",
                &format!("grandmaster number {} on the segment announced for 20 intervals: the resident clock's port is {} with grandmaster {:?} (the new one is {:?}, its port is {})", k + 1, state_name(so), pd.grandmaster_identity.0, id_of(k), state_name(sm)),
                replay.clone(),
            );
            return;
        }
        sim.nodes[mi].muted = true;
        let t1 = sim.now;
        sim.run_until(t1 + 14 * I_NS);
        let so = sim.nodes[oi].node.port_state(0);
        if so != PortState::Master {
            rep.violation("C01|succession|no-takeover", &format!("grandmaster number {} disappeared 14 intervals ago: the resident clock's port is {}", k + 1, state_name(so)), replay.clone());
            return;
        }
    }
    rep.ev("succession_of_more_than_eight_grandmasters");
}

pub fn run(rep: &mut Report, tier: &str, seed: u64, shard: (u32, u32), replay: Option<&str>) {
    rep.rule = "seeded topologies of real instances (chains, shared segments, rings, two ports of one instance on one segment, star and mixed; <= 6 nodes) with random rankings incl. clockClass < 128 leaves and slave-only nodes, per-link delay/jitter and BMCA phases (no loss: the property speaks of undisturbed announce traffic); each is run to the settle bound, checked structurally, observed for 20 intervals for flapping, then one fault (cut/restore link, silence node, quality change) is applied and everything is checked again; distinct = distinct orders of processed events (hash); non-trivial = a structure check ran".into();
    rep.require(&["structure_checked_initial", "flap_window_initial", "fault_applied", "fault_slave_only_node_made_master_capable", "structure_checked_after-fault", "sim_events", "succession_of_more_than_eight_grandmasters"]);
    if let Some(path) = replay {
        let v: serde_json::Value = serde_json::from_str(&std::fs::read_to_string(path).unwrap()).unwrap();
        if let Some(sd) = v["case"]["succession_seed"].as_u64() {
            succession(rep, sd);
        } else if let Ok(c) = serde_json::from_value::<Topo>(v["case"].clone()) {
            run_case(rep, &c, true);
        }
        println!("replay: {} finding(s)", rep.findings.len());
        for f in rep.findings.values() {
            println!("  {}", f.what);
        }
        return;
    }
    let mut rng = StdRng::seed_from_u64(seed ^ 0xc01 ^ ((shard.0 as u64) << 40));
    let n: u64 = if tier == "thorough" { 4000 } else { 150 };
    let budget = Budget::new(n, if tier == "thorough" { 900.0 } else { 25.0 });
    let mut i = 0;
    while budget.left(i) && budget.time_left() {
        i += 1;
        let t = gen_topo(&mut rng);
        // calibration aid (Appendix A): restrict a run to one topology family
        if let Ok(f) = std::env::var("VP_C01_FAMILY") {
            if t.family != f {
                continue;
            }
        }
        if i <= 2 {
            rep.sample(serde_json::to_value(&t).unwrap());
        }
        run_case(rep, &t, false);
        rep.evaluations += 1;
        if i % 50 == 10 {
            succession(rep, rng.gen());
        }
    }
}
