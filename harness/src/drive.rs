//! Protocol-level helpers: bring real ports into a given state the way a network would.

use std::sync::{Arc, Mutex};

use statime::config::{ClockIdentity, DelayMechanism, TimePropertiesDS};
use statime::observability::port::PortState;
use statime::time::{Interval, Time};

use crate::node::*;
use crate::refcodec::*;

pub fn ts_to_time(ts: Ts) -> Time {
    time_from_units(ts.to_units())
}

/// A scripted remote master: identity + running sequence counters.
#[derive(Clone, Debug)]
pub struct Remote {
    pub src: Src,
    pub ann_seq: u16,
    pub sync_seq: u16,
    pub body: AnnounceBody,
    pub flags: [u8; 2],
}

impl Remote {
    pub fn new(id: u8, port: u16) -> Remote {
        let clock = clock_id(id).0;
        let mut body = AnnounceBody::default();
        body.gm_identity = clock;
        body.gm_priority1 = 100;
        Remote { src: Src::new(clock, port), ann_seq: 0, sync_seq: 0, body, flags: [0, 0b0000_1000] }
    }
    pub fn pid(&self) -> Pid {
        self.src.pid
    }
    pub fn next_announce(&mut self) -> Msg {
        let mut m = self.src.announce(self.ann_seq, self.body.clone());
        m.hdr.flags = self.flags;
        self.ann_seq = self.ann_seq.wrapping_add(1);
        m
    }
}

pub struct Built {
    pub node: Node,
    pub rec: Option<Arc<Mutex<RecLog>>>,
}

#[derive(Clone)]
pub struct Build {
    pub id: u8,
    pub n_ports: usize,
    pub p2p: bool,
    /// per-port override of `p2p` (ports beyond the list use `p2p`)
    pub p2p_ports: Vec<bool>,
    /// ports that speak PTP 2.0 (minorVersionPTP 0)
    pub minor_zero: Vec<bool>,
    pub filter: Option<FilterCfg>,
    pub rec_reply: ReplyMode,
    pub tlv: TlvMode,
    pub path_trace: bool,
    pub slave_only: bool,
    pub master_only: Vec<bool>,
    pub priority1: u8,
    pub priority2: u8,
    pub clock_class: u8,
    pub log_announce: i8,
    pub log_sync: i8,
    pub log_delay: i8,
    pub receipt_timeout: u8,
    pub asymmetry_units: i128,
    pub aml: Aml,
    pub tp: TimePropertiesDS,
    pub start_units: u128,
    pub seed: u64,
    pub domain: u8,
    pub sdo: u16,
    pub clock: Option<Arc<Mutex<SimClock>>>,
}

impl Build {
    pub fn new(id: u8) -> Build {
        Build {
            id,
            n_ports: 1,
            p2p: false,
            p2p_ports: vec![],
            minor_zero: vec![],
            filter: None,
            rec_reply: ReplyMode::EchoDelay,
            tlv: TlvMode::None,
            path_trace: false,
            slave_only: false,
            master_only: vec![],
            priority1: 128,
            priority2: 128,
            clock_class: 248,
            log_announce: 0,
            log_sync: 0,
            log_delay: 0,
            receipt_timeout: 3,
            asymmetry_units: 0,
            aml: Aml::Any,
            tp: TimePropertiesDS::default(),
            start_units: 1_000 * SEC,
            seed: 1,
            domain: 0,
            sdo: 0,
            clock: None,
        }
    }

    pub fn build(&self) -> Result<Built, PanicInfo> {
        let mut inst = default_instance(clock_id(self.id));
        inst.priority_1 = self.priority1;
        inst.priority_2 = self.priority2;
        inst.clock_quality.clock_class = self.clock_class;
        inst.path_trace = self.path_trace;
        inst.slave_only = self.slave_only;
        inst.domain_number = self.domain;
        inst.sdo_id = statime::config::SdoId::try_from(self.sdo).unwrap_or_default();
        let (filter, rec) = match &self.filter {
            Some(f) => (f.clone(), None),
            None => {
                let log = RecLog::new(self.rec_reply);
                (FilterCfg::Rec(log.clone()), Some(log))
            }
        };
        let mut ports = vec![];
        for i in 0..self.n_ports {
            let mut pc = default_port(self.aml.clone());
            pc.announce_interval = Interval::from_log_2(self.log_announce);
            pc.sync_interval = Interval::from_log_2(self.log_sync);
            pc.announce_receipt_timeout = self.receipt_timeout;
            pc.delay_mechanism = if self.p2p_ports.get(i).copied().unwrap_or(self.p2p) {
                DelayMechanism::P2P { interval: Interval::from_log_2(self.log_delay) }
            } else {
                DelayMechanism::E2E { interval: Interval::from_log_2(self.log_delay) }
            };
            pc.master_only = self.master_only.get(i).copied().unwrap_or(false);
            if self.minor_zero.get(i).copied().unwrap_or(false) {
                pc.minor_ptp_version = statime::config::PtpMinorVersion::Zero;
            }
            pc.delay_asymmetry = dur_from_units(self.asymmetry_units);
            ports.push(PortCfg { cfg: pc, filter: filter.clone(), rng_seed: self.seed.wrapping_mul(1000).wrapping_add(i as u64) });
        }
        let cfg = NodeCfg { inst, tp: self.tp, ports, tlv: self.tlv };
        let node = Node::new(cfg, self.clock.clone().unwrap_or_else(|| perfect_clock(self.start_units)))?;
        Ok(Built { node, rec })
    }
}

/// Port becomes Master by announce receipt timeout (what a silent network does).
pub fn force_master(node: &mut Node, port: usize) -> Result<Vec<Act>, PanicInfo> {
    node.call(port, Call::AnnounceReceiptTimer)
}

/// Port becomes Slave of `remote`: two Announces within the window, then a BMCA run.
/// Returns the pending actions of the BMCA for that port.
pub fn make_slave(node: &mut Node, port: usize, remote: &mut Remote) -> Result<Vec<Vec<Act>>, PanicInfo> {
    for _ in 0..2 {
        let m = remote.next_announce();
        node.call(port, Call::GeneralRx(m.encode()))?;
    }
    node.bmca()
}

pub fn is_state(node: &Node, port: usize, s: PortState) -> bool {
    node.port_state(port) == s
}

pub fn cid(b: [u8; 8]) -> ClockIdentity {
    ClockIdentity(b)
}

pub fn state_name(s: PortState) -> &'static str {
    match s {
        PortState::Initializing => "Initializing",
        PortState::Faulty => "Faulty",
        PortState::Disabled => "Disabled",
        PortState::Listening => "Listening",
        PortState::PreMaster => "PreMaster",
        PortState::Master => "Master",
        PortState::Passive => "Passive",
        PortState::Uncalibrated => "Uncalibrated",
        PortState::Slave => "Slave",
    }
}

/// pull measurements out of a RecLog
pub fn measurements(log: &Arc<Mutex<RecLog>>) -> Vec<statime::port::Measurement> {
    log.lock()
        .unwrap()
        .events
        .iter()
        .filter_map(|e| if let RecEvent::Measurement { m, .. } = e { Some(*m) } else { None })
        .collect()
}
