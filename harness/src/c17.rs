//! C17 - shared instance state is never locked re-entrantly or seen half-updated.
//! (a) MonMutex: nested acquisition on one thread is detected deterministically in every workload
//!     (schedule independent); this check drives broad single-threaded workloads over it.
//! (b) version-tagged writes + observer threads: every field of a data set snapshot must come
//!     from the same update.
//! (c) threaded run over the real blocking RwLock inside MonMutex with a progress watchdog.

use std::sync::atomic::{AtomicBool, AtomicU64, Ordering};
use std::sync::mpsc;
use std::sync::Arc;

use rand::rngs::StdRng;
use rand::{Rng, SeedableRng};
use serde_json::json;
use statime::config::LeapIndicator;
use statime::port::NoForwardedTLVs;

use crate::drive::*;
use crate::hostile::*;
use crate::node::*;
use crate::refcodec::*;
use crate::report::*;

const K_MAX: u64 = 29_999;

fn tagged_announce(src: &Src, seq: u16, k: u64) -> Msg {
    let mut body = AnnounceBody::default();
    body.gm_identity = k.to_be_bytes();
    body.gm_priority1 = (k % 100) as u8; // always better than the instance (128)
    body.gm_priority2 = ((7 * k + 3) % 251) as u8;
    body.gm_class = (k % 253) as u8;
    body.gm_accuracy = 0x20 + (k % 16) as u8;
    body.gm_variance = (k % 65536) as u16;
    body.steps_removed = (k % 200) as u16;
    body.utc_offset = (k % 30000) as i16;
    body.time_source = [0x10u8, 0x20, 0x40, 0xa0][(k % 4) as usize];
    let mut m = src.announce(seq, body);
    // flags: utc valid always; leap59 = bit0 & !bit1, leap61 = bit1 & !bit0, traceable bits 2,3, timescale bit 4
    let mut f1 = 0x04u8;
    if k & 1 != 0 && k & 2 == 0 {
        f1 |= 0x02;
    }
    if k & 2 != 0 && k & 1 == 0 {
        f1 |= 0x01;
    }
    if k & 4 != 0 {
        f1 |= 0x10;
    }
    if k & 8 != 0 {
        f1 |= 0x20;
    }
    if k & 16 != 0 {
        f1 |= 0x08;
    }
    m.hdr.flags = [0, f1];
    m
}

/// returns a description of the inconsistency, if any
fn check_parent(p: &statime::observability::parent::ParentDS, own: [u8; 8]) -> Option<String> {
    let gm = p.grandmaster_identity.0;
    if gm == own {
        // the instance's own version
        if p.grandmaster_priority_1 != 128 || p.grandmaster_priority_2 != 128 || p.grandmaster_clock_quality.clock_class != 248 || p.parent_port_identity.clock_identity.0 != own {
            return Some(format!("parentDS mixes the instance's own grandmaster identity with foreign fields: {p:?}"));
        }
        return None;
    }
    let k = u64::from_be_bytes(gm);
    if k == 0 || k > K_MAX {
        return Some(format!("parentDS grandmaster identity {gm:?} was never written"));
    }
    let q = &p.grandmaster_clock_quality;
    if p.grandmaster_priority_1 != (k % 100) as u8
        || p.grandmaster_priority_2 != ((7 * k + 3) % 251) as u8
        || q.clock_class != (k % 253) as u8
        || q.clock_accuracy.to_primitive() != 0x20 + (k % 16) as u8
        || q.offset_scaled_log_variance != (k % 65536) as u16
    {
        return Some(format!("parentDS fields come from different updates (identity says k={k}): {p:?}"));
    }
    None
}

fn check_tp(tp: &statime::config::TimePropertiesDS, own_tp: &statime::config::TimePropertiesDS) -> Option<String> {
    if tp == own_tp {
        return None;
    }
    let Some(utc) = tp.current_utc_offset else {
        return Some(format!("timePropertiesDS matches neither the own properties nor any tagged update: {tp:?}"));
    };
    let k = utc as u64;
    let leap = if k & 1 != 0 && k & 2 == 0 {
        LeapIndicator::Leap59
    } else if k & 2 != 0 && k & 1 == 0 {
        LeapIndicator::Leap61
    } else {
        LeapIndicator::NoLeap
    };
    if tp.leap_indicator != leap || tp.time_traceable != (k & 4 != 0) || tp.frequency_traceable != (k & 8 != 0) || tp.ptp_timescale != (k & 16 != 0) || tp.time_source.to_primitive() != [0x10u8, 0x20, 0x40, 0xa0][(k % 4) as usize] {
        return Some(format!("timePropertiesDS fields come from different updates (utc offset says k={k}): {tp:?}"));
    }
    None
}

pub struct ThreadOutcome {
    pub snapshots: u64,
    pub distinct_k: u64,
    pub own_versions: u64,
    pub writer_ops: u64,
    pub bmca_runs: u64,
    pub announces_checked: u64,
    pub problems: Vec<String>,
    pub watchdog: bool,
}

/// (b)+(c): ports of one instance driven from separate threads, a BMCA thread doing the daemon's
/// stop-the-world hand-over through channels, observer threads reading the data sets.
pub fn threaded(seed: u64, n_ports: usize, n_observers: usize, ops_per_port: u64, yield_every: u64, max_wall: std::time::Duration) -> ThreadOutcome {
    let own_tp = statime::config::TimePropertiesDS::new_ptp_time(Some(-7), LeapIndicator::NoLeap, true, false, statime::config::TimeSource::Gnss);
    let mut b = Build::new(0x50);
    b.n_ports = n_ports;
    b.tp = own_tp;
    b.seed = seed;
    let built = b.build().expect("build");
    let mut node = built.node;
    // an update is one update also when the host's clock refuses what it is told at that moment: in
    // every other run all clock control calls (set_properties at the S1 decision among them) fail
    if seed & 1 == 1 {
        node.clock.lock().unwrap().fail_every = Some(1);
    }
    let inst = node.inst();
    let own = clock_id(0x50).0;
    let ports = node.take_ports();
    let stop = Arc::new(AtomicBool::new(false));
    let progress = Arc::new(AtomicU64::new(0));
    let writer_ops = Arc::new(AtomicU64::new(0));
    let bmca_runs = Arc::new(AtomicU64::new(0));
    let problems = Arc::new(std::sync::Mutex::new(Vec::<String>::new()));
    // channels: port thread -> bmca thread (port in), bmca thread -> port thread (port back)
    let mut to_bmca = vec![];
    let mut from_bmca = vec![];
    let mut port_side = vec![];
    let bmca_request = Arc::new(AtomicBool::new(false));
    for _ in 0..n_ports {
        let (tx_in, rx_in) = mpsc::channel::<BPort>();
        let (tx_back, rx_back) = mpsc::channel::<BPort>();
        to_bmca.push(rx_in);
        from_bmca.push(tx_back);
        port_side.push((tx_in, rx_back));
    }
    let mut handles = vec![];
    let announces_checked_total = Arc::new(AtomicU64::new(0));
    for (pi, (port, (tx_in, rx_back))) in ports.into_iter().zip(port_side).enumerate() {
        let announces_checked = announces_checked_total.clone();
        let stop = stop.clone();
        let progress = progress.clone();
        let writer_ops = writer_ops.clone();
        let bmca_request = bmca_request.clone();
        let problems = problems.clone();
        handles.push(std::thread::spawn(move || {
            let mut rng = StdRng::seed_from_u64(seed ^ (pi as u64 + 1) * 77);
            let mut port = Some(port);
            let src = Src::new(clock_id(0x10).0, 1);
            let mut seq: u16 = 0;
            let mut k: u64 = 1 + pi as u64 * 1000;
            let mut announcing = true;
            let mut done = 0u64;
            let mut torn_announce: Option<String> = None;
            while done < ops_per_port && !stop.load(Ordering::Relaxed) {
                if bmca_request.load(Ordering::Acquire) {
                    // hand the port over like the daemon's port task does
                    let p = port.take().unwrap();
                    let bp = (*p).start_bmca();
                    if tx_in.send(bp).is_err() {
                        return;
                    }
                    match rx_back.recv() {
                        Ok(bp) => {
                            let (rp, acts) = bp.end_bmca();
                            let _ = own_acts(acts);
                            port = Some(Box::new(rp));
                        }
                        Err(_) => return,
                    }
                    continue;
                }
                let p = port.as_mut().unwrap();
                let r = guarded(|| {
                    if pi == 0 {
                        // the slave-side port: tagged Announces from the parent, with pauses that let
                        // the parent expire (M2: own values) and come back (S1)
                        if rng.gen_bool(0.0005) {
                            announcing = !announcing;
                        }
                        if announcing {
                            k = if k >= K_MAX { 1 } else { k + 1 };
                            seq = seq.wrapping_add(1);
                            let m = tagged_announce(&src, seq, k);
                            let _ = own_acts(p.handle_general_receive(&m.encode()));
                        } else {
                            let _ = own_acts(p.handle_sync_timer());
                        }
                    } else {
                        match rng.gen_range(0..4) {
                            0 => {
                                // the Announce a master port builds is a snapshot of the data sets taken
                                // by this thread: all of its fields must stem from one update
                                for a in crate::node::own(p.handle_announce_timer(&mut NoForwardedTLVs)) {
                                    let Act::SendGeneral { data, .. } = a else { continue };
                                    let Ok(m) = Msg::decode(&data) else { continue };
                                    let Body::Announce(b) = &m.body else { continue };
                                    announces_checked.fetch_add(1, Ordering::Relaxed);
                                    let valid = m.hdr.flags[1] & 0x04 != 0;
                                    if b.gm_identity == own {
                                        if !(valid && b.utc_offset == -7 && b.steps_removed == 0) {
                                            torn_announce = Some(format!("Announce names the instance itself as grandmaster but carries utc offset {} (valid {valid}), stepsRemoved {}: mixes the own values with a parent update", b.utc_offset, b.steps_removed));
                                        }
                                    } else {
                                        let k = u64::from_be_bytes(b.gm_identity);
                                        if !(valid && b.utc_offset as i64 == (k % 30000) as i64 && b.steps_removed as u64 == k % 200 + 1 && b.gm_priority1 as u64 == k % 100) {
                                            torn_announce = Some(format!("Announce of a master port mixes two updates: grandmaster identity says k={k}, but priority1 {} / stepsRemoved {} / utc offset {} (valid {valid}) do not belong to it", b.gm_priority1, b.steps_removed, b.utc_offset));
                                        }
                                    }
                                }
                            }
                            1 => {
                                let _ = own_acts(p.handle_sync_timer());
                            }
                            2 => {
                                let _ = own_acts(p.handle_announce_receipt_timer());
                            }
                            _ => {
                                let _ = p.port_ds();
                            }
                        }
                    }
                });
                if let Err(pn) = r {
                    problems.lock().unwrap().push(if pn.nested_lock { "nested lock acquisition in a port thread".to_string() } else { format!("port thread panicked: {}", pn.describe()) });
                    stop.store(true, Ordering::Relaxed);
                    return;
                }
                if let Some(t) = torn_announce.take() {
                    problems.lock().unwrap().push(t);
                    stop.store(true, Ordering::Relaxed);
                    return;
                }
                done += 1;
                writer_ops.fetch_add(1, Ordering::Relaxed);
                progress.fetch_add(1, Ordering::Relaxed);
                if yield_every > 0 && done % yield_every == 0 {
                    std::thread::yield_now();
                }
            }
            // keep serving BMCA hand-overs until told to stop
            while !stop.load(Ordering::Relaxed) {
                if bmca_request.load(Ordering::Acquire) {
                    let p = port.take().unwrap();
                    let bp = (*p).start_bmca();
                    if tx_in.send(bp).is_err() {
                        return;
                    }
                    match rx_back.recv() {
                        Ok(bp) => {
                            let (rp, _) = bp.end_bmca();
                            port = Some(Box::new(rp));
                        }
                        Err(_) => return,
                    }
                } else {
                    std::thread::yield_now();
                }
            }
        }));
    }
    // BMCA thread
    {
        let stop = stop.clone();
        let progress = progress.clone();
        let bmca_runs = bmca_runs.clone();
        let bmca_request = bmca_request.clone();
        let problems = problems.clone();
        let writer_ops_b = writer_ops.clone();
        handles.push(std::thread::spawn(move || {
            let mut rng = StdRng::seed_from_u64(seed ^ 0xb);
            while !stop.load(Ordering::Relaxed) {
                // like the daemon's BMCA timer: many port operations happen between two runs
                let target = writer_ops_b.load(Ordering::Relaxed) + rng.gen_range(20..400);
                while writer_ops_b.load(Ordering::Relaxed) < target && !stop.load(Ordering::Relaxed) {
                    std::thread::yield_now();
                }
                bmca_request.store(true, Ordering::Release);
                let mut got: Vec<BPort> = vec![];
                for rx in &to_bmca {
                    loop {
                        match rx.recv_timeout(std::time::Duration::from_millis(200)) {
                            Ok(p) => {
                                got.push(p);
                                break;
                            }
                            Err(mpsc::RecvTimeoutError::Timeout) => {
                                if stop.load(Ordering::Relaxed) {
                                    return;
                                }
                            }
                            Err(_) => return,
                        }
                    }
                }
                bmca_request.store(false, Ordering::Release);
                let r = guarded(|| {
                    let mut refs: Vec<&mut BPort> = got.iter_mut().collect();
                    inst.bmca(&mut refs);
                });
                if let Err(pn) = r {
                    problems.lock().unwrap().push(if pn.nested_lock { "nested lock acquisition in the BMCA thread".to_string() } else { format!("BMCA thread panicked: {}", pn.describe()) });
                    stop.store(true, Ordering::Relaxed);
                    return;
                }
                bmca_runs.fetch_add(1, Ordering::Relaxed);
                progress.fetch_add(1, Ordering::Relaxed);
                for (p, tx) in got.into_iter().zip(&from_bmca) {
                    if tx.send(p).is_err() {
                        return;
                    }
                }
            }
        }));
    }
    // observers
    let snapshots = Arc::new(AtomicU64::new(0));
    let own_versions = Arc::new(AtomicU64::new(0));
    let seen_k = Arc::new(std::sync::Mutex::new(std::collections::HashSet::<u64>::new()));
    let mut obs_handles = vec![];
    for oi in 0..n_observers {
        let stop = stop.clone();
        let snapshots = snapshots.clone();
        let own_versions = own_versions.clone();
        let seen_k = seen_k.clone();
        let problems = problems.clone();
        obs_handles.push(std::thread::spawn(move || {
            let mut local_k = std::collections::HashSet::new();
            let mut n = 0u64;
            while !stop.load(Ordering::Relaxed) {
                let r = guarded(|| (inst.parent_ds(), inst.time_properties_ds(), inst.current_ds(None), inst.default_ds(), inst.path_trace_ds().list.len()));
                match r {
                    Ok((p, tp, cur, _d, _l)) => {
                        if let Some(e) = check_parent(&p, own) {
                            problems.lock().unwrap().push(e);
                            stop.store(true, Ordering::Relaxed);
                        }
                        if let Some(e) = check_tp(&tp, &own_tp) {
                            problems.lock().unwrap().push(e);
                            stop.store(true, Ordering::Relaxed);
                        }
                        let _ = cur.steps_removed;
                        if p.grandmaster_identity.0 == own {
                            own_versions.fetch_add(1, Ordering::Relaxed);
                        } else {
                            local_k.insert(u64::from_be_bytes(p.grandmaster_identity.0));
                        }
                    }
                    Err(pn) => {
                        problems.lock().unwrap().push(format!("observer panicked: {}", pn.describe()));
                        stop.store(true, Ordering::Relaxed);
                    }
                }
                n += 1;
                if (n + oi as u64) % 64 == 0 {
                    std::thread::yield_now();
                }
            }
            snapshots.fetch_add(n, Ordering::Relaxed);
            seen_k.lock().unwrap().extend(local_k);
        }));
    }
    // watchdog: all port threads must finish their quota; no progress for 20 s = inconclusive
    let mut watchdog = false;
    let mut last = 0u64;
    let mut last_change = std::time::Instant::now();
    let started = std::time::Instant::now();
    loop {
        std::thread::sleep(std::time::Duration::from_millis(20));
        let done = writer_ops.load(Ordering::Relaxed) >= ops_per_port * n_ports as u64;
        if done || stop.load(Ordering::Relaxed) {
            break;
        }
        // the quota is an upper bound, not an obligation: on a loaded machine the run ends after its
        // wall-time share with whatever it observed (counted in the evidence)
        if started.elapsed() >= max_wall {
            break;
        }
        let p = progress.load(Ordering::Relaxed);
        if p != last {
            last = p;
            last_change = std::time::Instant::now();
        } else if last_change.elapsed().as_secs() >= 20 {
            watchdog = true;
            break;
        }
    }
    stop.store(true, Ordering::Relaxed);
    if !watchdog {
        for h in handles {
            let _ = h.join();
        }
        for h in obs_handles {
            let _ = h.join();
        }
    }
    let out = ThreadOutcome {
        snapshots: snapshots.load(Ordering::Relaxed),
        distinct_k: seen_k.lock().unwrap().len() as u64,
        own_versions: own_versions.load(Ordering::Relaxed),
        writer_ops: writer_ops.load(Ordering::Relaxed),
        bmca_runs: bmca_runs.load(Ordering::Relaxed),
        announces_checked: announces_checked_total.load(Ordering::Relaxed),
        problems: problems.lock().unwrap().clone(),
        watchdog,
    };
    if watchdog {
        // threads may still be parked on the lock: leak the node rather than tear it down under them
        std::mem::forget(node);
    }
    out
}

/// field of a derived-Debug struct rendering: text after `key: ` up to the matching delimiter
fn dbg_field<'a>(text: &'a str, key: &str) -> Option<&'a str> {
    let pat = format!("{key}: ");
    let i = text.find(&pat)? + pat.len();
    let v = &text[i..];
    let mut depth = 0i32;
    for (j, c) in v.char_indices() {
        match c {
            '{' | '(' | '[' => depth += 1,
            '}' | ')' | ']' => {
                if depth == 0 {
                    return Some(v[..j].trim());
                }
                depth -= 1;
            }
            ',' if depth == 0 => return Some(v[..j].trim()),
            _ => {}
        }
    }
    Some(v.trim())
}

fn dbg_bytes(v: &str) -> Option<Vec<u8>> {
    let a = v.find('[')?;
    let b = v.rfind(']')?;
    v[a + 1..b].split(',').map(|x| x.trim().parse::<u8>().ok()).collect()
}

/// (a') deterministic torn-update detection: every state observable between two acquisitions of
/// the write lock (recorded at each release) must be a single-update state. Returns (states seen,
/// problems).
pub fn release_snapshots_scenario(seed: u64, n_announces: u64) -> (u64, u64, Vec<String>, u64) {
    let own = clock_id(0x50).0;
    let mut b = Build::new(0x50);
    b.n_ports = 2;
    b.path_trace = seed % 2 == 0;
    let b_path_trace = b.path_trace;
    let mut looping = 0u64;
    b.seed = seed;
    // a slave-only instance: its ports fall back to listening when the parent is lost, the data
    // sets are rewritten with the own values all the same
    b.slave_only = seed % 4 == 3;
    let Ok(built) = b.build() else { return (0, 0, vec![], 0) };
    let mut node = built.node;
    let own_tp_text = format!("{:?}", node.inst().time_properties_ds());
    // the parent's port number: ordinary, and the two ends of the range
    let src = Src::new(clock_id(0x10).0, [1u16, 0, 65535][(seed / 4 % 3) as usize]);
    let mut problems = vec![];
    let mut states = 0u64;
    let mut max_writes_per_call = 0u64;
    RECORD_WRITE_RELEASES.store(true, Ordering::Relaxed);
    let _ = take_write_releases();
    if node.call(1, Call::AnnounceReceiptTimer).is_err() {
        RECORD_WRITE_RELEASES.store(false, Ordering::Relaxed);
        return (0, 0, vec![], 0);
    }
    let mut check = |what: &str, problems: &mut Vec<String>, states: &mut u64, maxw: &mut u64| {
        let snaps = take_write_releases();
        *maxw = (*maxw).max(snaps.len() as u64);
        for s in snaps {
            *states += 1;
            let Some(p) = dbg_field(&s, "parent_ds") else { continue };
            let Some(gm) = dbg_field(p, "grandmaster_identity").and_then(dbg_bytes) else { continue };
            let p1: Option<u64> = dbg_field(p, "grandmaster_priority_1").and_then(|x| x.parse().ok());
            let p2: Option<u64> = dbg_field(p, "grandmaster_priority_2").and_then(|x| x.parse().ok());
            let class: Option<u64> = dbg_field(p, "clock_class").and_then(|x| x.parse().ok());
            let var: Option<u64> = dbg_field(p, "offset_scaled_log_variance").and_then(|x| x.parse().ok());
            let steps: Option<u64> = dbg_field(&s, "current_ds").and_then(|c| dbg_field(c, "steps_removed")).and_then(|x| x.parse().ok());
            let tp = dbg_field(&s, "time_properties_ds").unwrap_or("");
            let utc: Option<i64> = dbg_field(tp, "current_utc_offset").and_then(|x| x.strip_prefix("Some(")).and_then(|x| x.strip_suffix(')')).and_then(|x| x.parse().ok());
            if gm.len() != 8 {
                continue;
            }
            let mut g8 = [0u8; 8];
            g8.copy_from_slice(&gm);
            // per data set only (the property does not ask for atomicity across data sets)
            if g8 == own {
                if p1 != Some(128) || p2 != Some(128) || class != Some(248) {
                    problems.push(format!("{what}: parentDS observable at a write-lock release mixes the instance's own identity with foreign fields: priority1={p1:?} priority2={p2:?} class={class:?}"));
                }
                // the update that makes the instance its own grandmaster writes all three data
                // sets from the instance's own values; nothing else writes them until a parent is
                // selected again
                if tp != own_tp_text || steps != Some(0) {
                    problems.push(format!("{what}: state observable at a write-lock release mixes two updates: parentDS names the instance itself as grandmaster, but stepsRemoved={steps:?} and timePropertiesDS={tp} (own: {own_tp_text})"));
                }
            } else {
                let k = u64::from_be_bytes(g8);
                let ok = p1 == Some(k % 100) && p2 == Some((7 * k + 3) % 251) && class == Some(k % 253) && var == Some(k % 65536);
                if !ok {
                    problems.push(format!("{what}: parentDS observable at a write-lock release mixes two updates: grandmaster identity says k={k} but priority1={p1:?} priority2={p2:?} class={class:?} variance={var:?}"));
                }
            }
            if let Some(u) = utc {
                // timePropertiesDS of a tagged update: flags and time source are functions of the offset
                let k = u as u64;
                let tt = dbg_field(tp, "time_traceable") == Some(if k & 4 != 0 { "true" } else { "false" });
                let ft = dbg_field(tp, "frequency_traceable") == Some(if k & 8 != 0 { "true" } else { "false" });
                let ps = dbg_field(tp, "ptp_timescale") == Some(if k & 16 != 0 { "true" } else { "false" });
                let leap = dbg_field(tp, "leap_indicator") == Some(if k & 1 != 0 && k & 2 == 0 { "Leap59" } else if k & 2 != 0 && k & 1 == 0 { "Leap61" } else { "NoLeap" });
                if u >= 0 && !(tt && ft && ps && leap) {
                    problems.push(format!("{what}: timePropertiesDS observable at a write-lock release mixes two updates: utc offset says k={k} but the flags say otherwise ({tp})"));
                }
            }
            let _ = steps;
        }
    };
    check("setup", &mut problems, &mut states, &mut max_writes_per_call);
    let mut seq = 0u16;
    for k in 1..=n_announces {
        seq = seq.wrapping_add(1);
        let m = tagged_announce(&src, seq, k);
        if node.call(0, Call::GeneralRx(m.encode())).is_err() {
            break;
        }
        check("parent Announce", &mut problems, &mut states, &mut max_writes_per_call);
        if k == 2 || k % 7 == 0 {
            if node.bmca().is_err() {
                break;
            }
            check("BMCA", &mut problems, &mut states, &mut max_writes_per_call);
        }
        if b_path_trace && k % 11 == 4 {
            // a looping Announce from the parent (its PATH_TRACE names this instance) is discarded
            // as a whole: an observer must never see part of it next to the previous update
            let before = format!("{:?} {:?} {:?}", node.inst().parent_ds(), node.inst().time_properties_ds(), node.inst().current_ds(None));
            seq = seq.wrapping_add(1);
            let mut m = tagged_announce(&src, seq, k + 10_007);
            let mut v = vec![];
            v.extend_from_slice(&clock_id(0x10).0);
            v.extend_from_slice(&own);
            m.tlvs = vec![Tlv::new(TLV_PATH_TRACE, v)];
            if node.call(0, Call::GeneralRx(m.encode())).is_err() {
                break;
            }
            check("looping parent Announce", &mut problems, &mut states, &mut max_writes_per_call);
            let after = format!("{:?} {:?} {:?}", node.inst().parent_ds(), node.inst().time_properties_ds(), node.inst().current_ds(None));
            looping += 1;
            if before != after {
                problems.push(format!("looping parent Announce: a discarded Announce left part of its values in the data sets next to those of the previous update: before {before} after {after}"));
            }
        }
        if k % 13 == 6 {
            // a run-time quality change writes defaultDS only; the other data sets keep the values
            // of the update they came from (the quality is put back before the next BMCA run)
            let orig = node.inst().default_ds().clock_quality;
            let mut q = orig;
            q.clock_class = [6u8, 7, 127, 128, 0][(k / 13 % 5) as usize];
            q.offset_scaled_log_variance = 0x1234;
            if node.set_clock_quality(q).is_err() {
                break;
            }
            check("set_clock_quality", &mut problems, &mut states, &mut max_writes_per_call);
            if node.set_clock_quality(orig).is_err() {
                break;
            }
            check("set_clock_quality (restore)", &mut problems, &mut states, &mut max_writes_per_call);
        }
        if k % 5 == 0 {
            // a panicking call (e.g. a nested acquisition, reported by part (a)) leaves the port unusable
            if node.call(1, Call::AnnounceTimer).is_err() {
                break;
            }
            check("announce timer", &mut problems, &mut states, &mut max_writes_per_call);
        }
        if k % 50 == 49 {
            // let the parent expire (own values) and come back
            for _ in 0..6 {
                if node.bmca().is_err() {
                    break;
                }
                check("BMCA (expiry)", &mut problems, &mut states, &mut max_writes_per_call);
            }
        }
    }
    RECORD_WRITE_RELEASES.store(false, Ordering::Relaxed);
    (states, max_writes_per_call, problems, looping)
}

fn own_acts(it: statime::port::PortActionIterator<'_>) -> usize {
    crate::node::own(it).len()
}

pub fn run(rep: &mut Report, tier: &str, seed: u64, shard: (u32, u32), _replay: Option<&str>) {
    rep.rule = "(a) nested-acquisition detection (thread-local depth per lock) is active in every workload of every check; here hostile single-threaded histories in both timestamp regimes are driven over it and every acquisition is counted; (b)+(c) multi-threaded runs: one thread per port of a 2-3-port instance, a BMCA thread doing the daemon's stop-the-world hand-over through channels, 2-4 observer threads; the slave-side port receives parent Announces in which every field of parentDS/timePropertiesDS/currentDS is a function of one counter k, with pauses so that BMCA flips between the parent's and the instance's own values; observers decode k from each field of every snapshot; distinct = distinct k values observed + (state x call) cells".into();
    rep.require(&["host_call", "lock_acquisitions", "write_release_states_checked", "threaded_runs", "snapshots_checked", "distinct_versions_seen", "own_version_snapshots", "bmca_runs_threaded"]);
    let thorough = tier == "thorough";
    let miri = tier == "miri";
    let mut rng = StdRng::seed_from_u64(seed ^ 0xc17 ^ ((shard.0 as u64) << 40));
    // ---------------- (a)
    let n_hist: u64 = if miri { 2 } else if thorough { 20_000 } else { 600 };
    let budget = Budget::new(n_hist, if thorough { 300.0 } else { 8.0 });
    let before = LOCK_ACQUISITIONS.load(Ordering::Relaxed);
    let mut i = 0;
    while budget.left(i) {
        i += 1;
        let cfg = gen_config(&mut rng);
        let Ok(mut ex) = Exec::new(&cfg) else { continue };
        let mut gen = Gen::new(rng.gen(), rng.gen_bool(0.5), &cfg);
        let mut queue: std::collections::VecDeque<Op> = gen.setup_ops(&ex).into();
        for _ in 0..if miri { 40 } else { 200 } {
            let op = match queue.pop_front() {
                Some(o) => o,
                None => gen.next(&ex),
            };
            let st = ex.node.port_state(0);
            rep.ev("host_call");
            rep.distinct_label(&format!("{}|{}", state_name(st), op.kind()));
            match ex.apply(&op) {
                Ok(_) => {}
                Err(p) => {
                    if p.nested_lock {
                        let ev = NESTED_EVENTS.lock().unwrap().last().cloned();
                        rep.violation(
                            &format!("C17|nested-acquisition|{}", op.kind()),
                            &format!("{} requested the instance state lock while already holding it (outer write={:?}); would deadlock a RwLock with a queued writer / panic a RefCell. Backtrace: {}", op.kind(), ev.as_ref().map(|e| e.outer_write), ev.map(|e| e.backtrace).unwrap_or_default()),
                            json!({"cfg": cfg, "op": op}),
                        );
                    }
                    break;
                }
            }
        }
        rep.evaluations += 1;
    }
    rep.evn("lock_acquisitions", LOCK_ACQUISITIONS.load(Ordering::Relaxed) - before);
    // ---------------- (a') states observable between write acquisitions
    for r in 0..if miri { 1 } else if thorough { 200 } else { 20 } {
        let (states, maxw, problems, looping) = release_snapshots_scenario(seed.wrapping_add(r), if miri { 20 } else { 400 });
        rep.evn("write_release_states_checked", states);
        rep.evn("looping_parent_announces_checked_for_partial_application", looping);
        rep.extra.insert("max_write_acquisitions_per_host_call".into(), json!(maxw));
        for p in problems.iter().take(3) {
            rep.violation("C17|torn-update|state-between-write-acquisitions", p, json!({"release_snapshots_seed": seed.wrapping_add(r)}));
        }
        rep.evaluations += 1;
    }
    // ---------------- (b) + (c)
    let runs = if miri { 1 } else if thorough { 60 } else { 6 };
    let ops = if miri { 120 } else if thorough { 400_000 } else { 150_000 };
    for r in 0..runs {
        let n_ports = 2 + (r % 2) as usize;
        let n_obs = if miri { 1 } else { 2 + (r % 3) as usize };
        let max_wall = std::time::Duration::from_millis(if miri { 3_600_000 } else if thorough { 12_000 } else { 2_500 });
        let o = threaded(seed.wrapping_add(r as u64 * 101), n_ports, n_obs, ops, [0u64, 1, 7, 64][(r % 4) as usize], max_wall);
        rep.ev("threaded_runs");
        rep.evn("snapshots_checked", o.snapshots);
        rep.evn("distinct_versions_seen", o.distinct_k);
        rep.evn("own_version_snapshots", o.own_versions);
        rep.evn("bmca_runs_threaded", o.bmca_runs);
        rep.evn("emitted_announces_checked_threaded", o.announces_checked);
        rep.evn("writer_ops_threaded", o.writer_ops);
        rep.evaluations += 1;
        for k in 0..o.distinct_k.min(2000) {
            rep.distinct_case(&format!("k{r}-{k}"));
        }
        for p in &o.problems {
            let class = if p.contains("nested") {
                "nested-acquisition-threaded"
            } else if p.contains("Announce") {
                "torn-announce"
            } else if p.contains("different updates") || p.contains("mixes") || p.contains("never written") || p.contains("matches neither") {
                "torn-snapshot"
            } else {
                "panic-threaded"
            };
            rep.violation(&format!("C17|{class}"), p, json!({"seed": seed, "run": r, "n_ports": n_ports, "observers": n_obs}));
        }
        if o.watchdog {
            rep.inconclusive("threaded run made no progress for 20 s (watchdog); no witness of a lock cycle available");
        }
        if r == 0 {
            rep.sample(json!({"threaded_run": {"ports": n_ports, "observers": n_obs, "writer_ops": o.writer_ops, "bmca_runs": o.bmca_runs, "snapshots": o.snapshots, "distinct_k": o.distinct_k, "own_version_snapshots": o.own_versions}}));
        }
    }
    let nested = NESTED_EVENTS.lock().unwrap().len();
    rep.extra.insert("nested_events_total".into(), json!(nested));
}
