//! C08 - ports act only within their role; at most one port steers the clock.
//! Oracle: online invariant monitor at every host-call boundary (port states, decoded emitted
//! frames, clock calls attributed per port) over hostile random histories and over a
//! depth-bounded breadth-first exploration of a host-call alphabet.

use std::collections::{HashSet, VecDeque};

use rand::rngs::StdRng;
use rand::{Rng, SeedableRng};
use serde_json::json;
use statime::observability::port::PortState;

use crate::drive::*;
use crate::hostile::*;
use crate::node::*;
use crate::refcodec::*;
use crate::report::*;

pub struct RoleMonitor {
    pub prop: &'static str,
    slave_only_since_creation: bool,
    /// Some(true) after set_slave_only(true); becomes binding after the next completed BMCA
    slave_only_now: bool,
    bmca_since_slave_only: bool,
    clock_log_seen: usize,
}

impl RoleMonitor {
    pub fn new(prop: &'static str, cfg: &Config) -> RoleMonitor {
        RoleMonitor { prop, slave_only_since_creation: cfg.slave_only, slave_only_now: cfg.slave_only, bmca_since_slave_only: cfg.slave_only, clock_log_seen: 0 }
    }

    /// call after every op; `before` = port states before the op
    pub fn after_op(&mut self, rep: &mut Report, ex: &Exec, op: &Op, before: &[PortState], replay: &dyn Fn() -> serde_json::Value) {
        let prop = self.prop;
        let after = ex.states();
        rep.ev("role_checked_call");
        match op {
            Op::SlaveOnly(v) => {
                if *v != self.slave_only_now {
                    self.bmca_since_slave_only = false;
                }
                self.slave_only_now = *v;
                if !*v {
                    self.slave_only_since_creation = false;
                }
            }
            Op::Bmca => {
                if self.slave_only_now {
                    self.bmca_since_slave_only = true;
                }
            }
            _ => {}
        }
        // --- state invariants
        let n_slave = after.iter().filter(|s| **s == PortState::Slave).count();
        if n_slave > 1 {
            rep.violation(&format!("{prop}|two-slave-ports"), &format!("{} ports in the Slave state after {}: {:?}", n_slave, op.kind(), after.iter().map(|s| state_name(*s)).collect::<Vec<_>>()), replay());
        }
        for (p, s) in after.iter().enumerate() {
            if *s == PortState::Slave && ex.cfg.ports[p].master_only {
                rep.violation(&format!("{prop}|master-only-port-slave"), &format!("master-only port {p} is Slave after {}", op.kind()), replay());
            }
            if *s == PortState::Master {
                if self.slave_only_since_creation {
                    rep.violation(&format!("{prop}|slave-only-instance-master"), &format!("port {p} of an instance that is slave-only since creation is Master after {}", op.kind()), replay());
                } else if self.slave_only_now && self.bmca_since_slave_only && !matches!(op, Op::SlaveOnly(_)) {
                    rep.violation(&format!("{prop}|master-after-slave-only-bmca"), &format!("port {p} is Master after {} although slave-only was switched on and a BMCA has completed since", op.kind()), replay());
                }
            }
        }
        // --- emitted frames
        for (p, data, _event) in &ex.last_tx {
            let Ok(m) = Msg::decode(data) else { continue };
            rep.ev("role_checked_frame");
            let st = before[*p];
            match m.hdr.msg_type {
                T_ANNOUNCE | T_SYNC | T_FOLLOW_UP | T_DELAY_RESP => {
                    if st != PortState::Master {
                        rep.violation(&format!("{prop}|master-message-from-non-master|{}", type_name(m.hdr.msg_type)), &format!("port {p} emitted {} while {} (op {})", type_name(m.hdr.msg_type), state_name(st), op.kind()), replay());
                    }
                }
                T_DELAY_REQ => {
                    if st != PortState::Slave {
                        rep.violation(&format!("{prop}|delay-req-from-non-slave"), &format!("port {p} emitted Delay_Req while {} (op {})", state_name(st), op.kind()), replay());
                    }
                }
                _ => {}
            }
        }
        // --- clock control attribution
        let log = ex.node.clock.lock().unwrap().log.clone();
        let mut per_port_cmds: Vec<usize> = vec![0; before.len()];
        for c in &log[self.clock_log_seen.min(log.len())..] {
            let p = (c.port as usize).saturating_sub(1);
            if p >= before.len() {
                continue;
            }
            match &c.kind {
                ClockCallKind::SetProperties(_) => {}
                k => {
                    rep.ev("clock_command");
                    per_port_cmds[p] += 1;
                    let was_slave = before[p] == PortState::Slave;
                    let is_slave = after[p] == PortState::Slave;
                    if !was_slave && !is_slave {
                        rep.violation(&format!("{prop}|clock-control-by-non-slave"), &format!("port {p} ({} -> {}) issued {:?} during {}", state_name(before[p]), state_name(after[p]), k, op.kind()), replay());
                    } else if was_slave && !is_slave {
                        // leaving slave: exactly one final frequency command is allowed
                        if matches!(k, ClockCallKind::StepClock(_)) {
                            rep.violation(&format!("{prop}|step-while-leaving-slave"), &format!("port {p} stepped the clock in the call in which it left Slave ({})", op.kind()), replay());
                        }
                    }
                }
            }
        }
        self.clock_log_seen = log.len();
        if log.len() > 50_000 {
            ex.node.clock.lock().unwrap().log.clear();
            self.clock_log_seen = 0;
        }
    }
}

#[derive(Clone, Debug, serde::Serialize, serde::Deserialize)]
pub struct Case {
    pub cfg: Config,
    pub gen_seed: u64,
    pub n_ops: usize,
    #[serde(default)]
    pub ops: Vec<Op>,
}

pub fn run_history(rep: &mut Report, case: &Case, replay_ops: Option<&[Op]>) {
    let Ok(mut ex) = Exec::new(&case.cfg) else { return };
    let mut gen = Gen::new(case.gen_seed, false, &case.cfg);
    let mut mon = RoleMonitor::new("C08", &case.cfg);
    let mut ops: Vec<Op> = vec![];
    let mut queue: VecDeque<Op> = match replay_ops {
        Some(o) => o.to_vec().into(),
        None => gen.setup_ops(&ex).into(),
    };
    let total = replay_ops.map(|o| o.len()).unwrap_or(case.n_ops);
    for _ in 0..total {
        let op = match queue.pop_front() {
            Some(o) => o,
            None => {
                if replay_ops.is_some() {
                    break;
                }
                gen.next(&ex)
            }
        };
        let before = ex.states();
        ops.push(op.clone());
        if ex.apply(&op).is_err() {
            // a panic is C03's finding
            rep.observe("history ended by a panic (see C03)");
            return;
        }
        let ops_ref = &ops;
        let case_ref = case;
        mon.after_op(rep, &ex, &op, &before, &|| {
            let mut c = case_ref.clone();
            c.ops = ops_ref.clone();
            serde_json::to_value(&c).unwrap()
        });
        for s in ex.states() {
            rep.ev(&format!("state_{}", state_name(s)));
        }
    }
}

// ------------------------------------------------------------------------------------------
// depth-bounded breadth-first exploration

fn alphabet(cfg: &Config, gen: &mut Gen) -> Vec<Op> {
    let mut a = vec![Op::Bmca, Op::SlaveOnly(true), Op::SlaveOnly(false), Op::Quality(6), Op::Quality(248)];
    for port in 0..cfg.ports.len() {
        for kind in 0..5 {
            a.push(Op::Timer { port, kind });
        }
        // announces from a better, a worse and an own-identity source
        for (ri, p1) in [(0usize, 1u8), (1, 250)] {
            let mut body = AnnounceBody::default();
            body.gm_identity = gen.remotes[ri].src.pid.clock;
            body.gm_priority1 = p1;
            let m = gen.remotes[ri].src.announce(0, body);
            a.push(Op::General { port, data: hex(&m.encode()) });
        }
        let own_other = Src { pid: Pid { clock: clock_id(cfg.id).0, port: 1 }, domain: cfg.domain, sdo: cfg.sdo, minor_version: 1 };
        let mut body = AnnounceBody::default();
        body.gm_identity = clock_id(cfg.id).0;
        a.push(Op::General { port, data: hex(&own_other.announce(0, body).encode()) });
        // sync / follow-up / delay messages from the better master
        let src = gen.remotes[0].src.clone();
        a.push(Op::Event { port, data: hex(&src.sync(1, true, Ts::default(), 0).encode()), t: cfg.start + 5 * SEC });
        a.push(Op::General { port, data: hex(&src.follow_up(1, Ts { secs: (cfg.start / SEC) as u64, nanos: 0 }, 0).encode()) });
        a.push(Op::Event { port, data: hex(&src.delay_req(3, 0).encode()), t: cfg.start + 6 * SEC });
        a.push(Op::TxTs { port, which: 0, t: cfg.start + 7 * SEC });
    }
    a
}

/// announce sequence ids must increase for repeated announces to qualify: rewrite on the fly
fn bump_seq(op: &Op, k: u16) -> Op {
    match op {
        Op::General { port, data } => {
            let mut b = unhex(data);
            if b.len() >= 32 && b[0] & 0x0f == T_ANNOUNCE {
                let s = k.to_be_bytes();
                b[30] = s[0];
                b[31] = s[1];
            }
            Op::General { port: *port, data: hex(&b) }
        }
        o => o.clone(),
    }
}

pub fn explore(rep: &mut Report, cfg: &Config, max_depth: usize, max_states: usize) -> usize {
    let mut gen = Gen::new(1, false, cfg);
    let alpha = alphabet(cfg, &mut gen);
    let mut seen: HashSet<u64> = HashSet::new();
    let mut frontier: VecDeque<Vec<usize>> = VecDeque::new();
    frontier.push_back(vec![]);
    let mut expanded = 0;
    while let Some(path) = frontier.pop_front() {
        if seen.len() >= max_states {
            break;
        }
        for (ai, _) in alpha.iter().enumerate() {
            // replay the prefix, then apply the new op under the monitor
            let Ok(mut ex) = Exec::new(cfg) else { return expanded };
            let mut mon = RoleMonitor::new("C08", cfg);
            let mut ok = true;
            let full: Vec<usize> = path.iter().copied().chain([ai]).collect();
            let mut ops_done: Vec<Op> = vec![];
            for (k, &oi) in full.iter().enumerate() {
                let op = bump_seq(&alpha[oi], k as u16 + 1);
                let before = ex.states();
                ops_done.push(op.clone());
                if ex.apply(&op).is_err() {
                    ok = false;
                    break;
                }
                let ops_ref = &ops_done;
                mon.after_op(rep, &ex, &op, &before, &|| json!({"bfs": true, "cfg": cfg, "ops": ops_ref}));
            }
            if !ok {
                continue;
            }
            expanded += 1;
            rep.evaluations += 1;
            let snap = match ex.node.snapshot() {
                Ok(s) => s,
                Err(_) => continue,
            };
            let digest = fnv(format!("{:?}|{}|{}|{:?}", snap.port_states, snap.datasets, ex.pending.iter().map(|p| p.len()).sum::<usize>(), ex.node.inst().default_ds().slave_only).as_bytes());
            if seen.insert(digest) {
                rep.distinct_case(&format!("bfs{digest}"));
                if full.len() < max_depth {
                    frontier.push_back(full);
                }
            }
        }
    }
    rep.evn("bfs_states", seen.len() as u64);
    expanded
}

pub fn run(rep: &mut Report, tier: &str, seed: u64, shard: (u32, u32), replay: Option<&str>) {
    rep.rule = "role invariants evaluated after every host call of (a) hostile random histories in the consistent timestamp regime over 1-3-port instances in every master-only / slave-only / E2E / P2P combination with Kalman, basic and recording filters and (b) a breadth-first exploration of a host-call alphabet (5 timers, BMCA, Announce from better / worse / own-instance sources, Sync, Follow_Up, Delay_Req, transmit timestamp, set_slave_only on/off, quality change) to a depth bound with states de-duplicated by a digest of the observable state; distinct = BFS states + (state x call) cells".into();
    rep.require(&["role_checked_call", "role_checked_frame", "clock_command", "bfs_states", "state_Master", "state_Slave", "state_Passive", "state_Faulty"]);
    if let Some(path) = replay {
        let v: serde_json::Value = serde_json::from_str(&std::fs::read_to_string(path).unwrap()).unwrap();
        if v["case"]["bfs"].as_bool().unwrap_or(false) {
            let cfg: Config = serde_json::from_value(v["case"]["cfg"].clone()).unwrap();
            let ops: Vec<Op> = serde_json::from_value(v["case"]["ops"].clone()).unwrap();
            run_history(rep, &Case { cfg, gen_seed: 0, n_ops: ops.len(), ops: vec![] }, Some(&ops));
        } else if let Ok(c) = serde_json::from_value::<Case>(v["case"].clone()) {
            let ops = c.ops.clone();
            run_history(rep, &c, Some(&ops));
        }
        println!("replay: {} finding(s)", rep.findings.len());
        for f in rep.findings.values() {
            println!("  {}", f.what);
        }
        return;
    }
    let mut rng = StdRng::seed_from_u64(seed ^ 0xc08 ^ ((shard.0 as u64) << 40));
    let thorough = tier == "thorough";
    // (b) BFS over a few representative configurations
    let mut bfs_cfgs = vec![];
    for (np, so, mo, p2p) in [(1usize, false, false, false), (2, false, false, false), (2, true, false, false), (2, false, true, false), (2, false, false, true), (3, false, true, false)] {
        let mut c = gen_config(&mut rng);
        c.slave_only = so;
        c.class = if so { 255 } else { 248 };
        c.p1 = 128;
        c.domain = 0;
        c.sdo = 0;
        c.filter = 0;
        c.tlv = 0;
        c.clock_fail_every = 0;
        c.start = 1_700_000_000 * SEC;
        c.ports.truncate(np);
        while c.ports.len() < np {
            let p = c.ports[0].clone();
            c.ports.push(p);
        }
        for (i, p) in c.ports.iter_mut().enumerate() {
            p.master_only = mo && i == 0;
            p.p2p = p2p;
            p.aml = 0;
            p.asymmetry = 0;
        }
        bfs_cfgs.push(c);
    }
    for (i, c) in bfs_cfgs.iter().enumerate() {
        if i as u32 % shard.1 != shard.0 {
            continue;
        }
        let (depth, states) = if thorough { (7, 6000) } else { (5, 350) };
        explore(rep, c, depth, states);
    }
    // (a) random histories
    let n: u64 = if thorough { 40_000 } else { 700 };
    let budget = Budget::new(n, if thorough { 700.0 } else { 15.0 });
    let mut i = 0;
    while budget.left(i) {
        i += 1;
        let mut cfg = gen_config(&mut rng);
        cfg.filter = [0u8, 0, 1, 2][rng.gen_range(0..4)];
        let case = Case { cfg, gen_seed: rng.gen(), n_ops: 250, ops: vec![] };
        if i <= 2 {
            rep.sample(json!({"config": case.cfg, "n_ops": case.n_ops}));
        }
        run_history(rep, &case, None);
        rep.evaluations += 1;
    }
}
