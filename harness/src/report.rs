//! Result record written by every workload; merged and judged by /verif/check.

use std::collections::{BTreeMap, BTreeSet};

use serde_json::{json, Value};

#[derive(Clone, Debug)]
pub struct Finding {
    /// exact identifying tuple of the failure (what known_findings.jsonl keys on)
    pub signature: String,
    pub what: String,
    /// everything needed to re-run the failing case
    pub replay: Value,
    pub count: u64,
}

pub struct Report {
    pub property: String,
    pub tier: String,
    pub seed: u64,
    pub shard: (u32, u32),
    pub evaluations: u64,
    pub distinct: BTreeSet<u64>,
    pub distinct_labels: BTreeSet<String>,
    pub rule: String,
    pub samples: Vec<Value>,
    /// monitored event kind -> number of instances observed
    pub events: BTreeMap<String, u64>,
    /// event kinds that MUST be observed at least once or the run is inconclusive
    pub required_events: Vec<String>,
    pub findings: BTreeMap<String, Finding>,
    pub inconclusive: Vec<String>,
    pub observations: BTreeMap<String, u64>,
    pub extra: BTreeMap<String, Value>,
    pub exhaustive: bool,
    start: std::time::Instant,
    pub max_samples: usize,
}

pub fn fnv(s: &[u8]) -> u64 {
    let mut h: u64 = 0xcbf29ce484222325;
    for b in s {
        h ^= *b as u64;
        h = h.wrapping_mul(0x100000001b3);
    }
    h
}

impl Report {
    pub fn new(property: &str, tier: &str, seed: u64, shard: (u32, u32)) -> Report {
        Report {
            property: property.to_string(),
            tier: tier.to_string(),
            seed,
            shard,
            evaluations: 0,
            distinct: BTreeSet::new(),
            distinct_labels: BTreeSet::new(),
            rule: String::new(),
            samples: vec![],
            events: BTreeMap::new(),
            required_events: vec![],
            findings: BTreeMap::new(),
            inconclusive: vec![],
            observations: BTreeMap::new(),
            extra: BTreeMap::new(),
            exhaustive: false,
            start: std::time::Instant::now(),
            max_samples: 6,
        }
    }
    pub fn elapsed(&self) -> f64 {
        self.start.elapsed().as_secs_f64()
    }
    pub fn ev(&mut self, kind: &str) {
        *self.events.entry(kind.to_string()).or_insert(0) += 1;
    }
    pub fn evn(&mut self, kind: &str, n: u64) {
        *self.events.entry(kind.to_string()).or_insert(0) += n;
    }
    pub fn require(&mut self, kinds: &[&str]) {
        for k in kinds {
            self.required_events.push(k.to_string());
            self.events.entry(k.to_string()).or_insert(0);
        }
    }
    pub fn observe(&mut self, what: &str) {
        *self.observations.entry(what.to_string()).or_insert(0) += 1;
    }
    /// count a distinct non-trivial case by a digest of what made it distinct
    pub fn distinct_case(&mut self, digest: &str) {
        if self.distinct.len() < 5_000_000 {
            self.distinct.insert(fnv(digest.as_bytes()));
        }
    }
    pub fn distinct_label(&mut self, label: &str) {
        self.distinct_labels.insert(label.to_string());
    }
    pub fn sample(&mut self, v: Value) {
        if self.samples.len() < self.max_samples {
            self.samples.push(v);
        }
    }
    pub fn violation(&mut self, signature: &str, what: &str, replay: Value) {
        let e = self.findings.entry(signature.to_string()).or_insert_with(|| Finding {
            signature: signature.to_string(),
            what: what.to_string(),
            replay,
            count: 0,
        });
        e.count += 1;
    }
    pub fn inconclusive(&mut self, why: &str) {
        if !self.inconclusive.iter().any(|w| w == why) {
            self.inconclusive.push(why.to_string());
        }
    }
    pub fn to_json(&self) -> Value {
        let mut inconclusive = self.inconclusive.clone();
        for k in &self.required_events {
            if self.events.get(k).copied().unwrap_or(0) == 0 {
                inconclusive.push(format!("monitor observed zero events of kind '{k}'"));
            }
        }
        json!({
            "property": self.property,
            "tier": self.tier,
            "seed": self.seed,
            "shard": [self.shard.0, self.shard.1],
            "evaluations": self.evaluations,
            "distinct_hashes": self.distinct.iter().collect::<Vec<_>>(),
            "distinct_labels": self.distinct_labels.iter().collect::<Vec<_>>(),
            "rule": self.rule,
            "samples": self.samples,
            "events": self.events,
            "required_events": self.required_events,
            "findings": self.findings.values().map(|f| json!({
                "signature": f.signature, "what": f.what, "replay": f.replay, "count": f.count
            })).collect::<Vec<_>>(),
            "inconclusive": inconclusive,
            "observations": self.observations,
            "extra": self.extra,
            "exhaustive": self.exhaustive,
            "wall_s": self.elapsed(),
            "debug_assertions": cfg!(debug_assertions),
        })
    }
}

/// Budget helper: stop on operation count or wall time, whichever first.
pub struct Budget {
    pub max_cases: u64,
    pub max_secs: f64,
    start: std::time::Instant,
}

impl Budget {
    pub fn new(max_cases: u64, max_secs: f64) -> Budget {
        Budget { max_cases, max_secs, start: std::time::Instant::now() }
    }
    pub fn left(&self, done: u64) -> bool {
        done < self.max_cases && (done % 64 != 0 || self.start.elapsed().as_secs_f64() < self.max_secs)
    }
    pub fn time_left(&self) -> bool {
        self.start.elapsed().as_secs_f64() < self.max_secs
    }
}

/// serde helpers: 128-bit integers as decimal strings (JSON numbers cannot hold them portably)
pub mod s_u128 {
    use serde::{Deserialize, Deserializer, Serializer};
    pub fn serialize<S: Serializer>(v: &u128, s: S) -> Result<S::Ok, S::Error> {
        s.serialize_str(&v.to_string())
    }
    pub fn deserialize<'de, D: Deserializer<'de>>(d: D) -> Result<u128, D::Error> {
        let s = String::deserialize(d)?;
        s.parse().map_err(serde::de::Error::custom)
    }
}
pub mod s_i128 {
    use serde::{Deserialize, Deserializer, Serializer};
    pub fn serialize<S: Serializer>(v: &i128, s: S) -> Result<S::Ok, S::Error> {
        s.serialize_str(&v.to_string())
    }
    pub fn deserialize<'de, D: Deserializer<'de>>(d: D) -> Result<i128, D::Error> {
        let s = String::deserialize(d)?;
        s.parse().map_err(serde::de::Error::custom)
    }
}
