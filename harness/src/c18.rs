//! C18 - the overlay clock behaves like a clock.
//! Oracle: independent affine reference in exact integer arithmetic (units of 2^-32 ns; ppm values
//! are generated as multiples of 2^-20 so they are exact in every representation involved, plus
//! a share of arbitrary f64 ppm values judged with the I96F32 quantisation slack).

use std::sync::{Arc, Mutex};

use rand::rngs::StdRng;
use rand::{Rng, SeedableRng};
use serde_json::json;
use statime::config::TimePropertiesDS;
use statime::time::{Duration, Time};
use statime::{Clock, OverlayClock, SharedClock};

use crate::node::*;
use crate::report::*;

#[derive(Clone)]
struct Fake(Arc<Mutex<u128>>);

impl Clock for Fake {
    type Error = ();
    fn now(&self) -> Time {
        time_from_units(*self.0.lock().unwrap())
    }
    fn step_clock(&mut self, _o: Duration) -> Result<Time, ()> {
        Err(())
    }
    fn set_frequency(&mut self, _p: f64) -> Result<Time, ()> {
        Err(())
    }
    fn set_properties(&mut self, _t: &TimePropertiesDS) -> Result<(), ()> {
        Ok(())
    }
}

#[derive(Clone, Debug, serde::Serialize, serde::Deserialize)]
pub enum Op {
    /// ppm as numerator over 2^20, or raw f64 bits when `raw` is set
    SetFreq { num: i64, raw: Option<u64> },
    Step {
        #[serde(with = "crate::report::s_i128")]
        units: i128,
    },
    Advance {
        #[serde(with = "crate::report::s_u128")]
        units: u128,
    },
    /// re-read a probe taken since the last adjustment
    Probe,
}

#[derive(Clone, Debug, serde::Serialize, serde::Deserialize)]
pub struct Case {
    #[serde(with = "crate::report::s_u128")]
    pub start: u128,
    pub shared: bool,
    pub ops: Vec<Op>,
}

const PPM_DEN: i128 = 1 << 20;

fn ppm_of(op: &Op) -> f64 {
    match op {
        Op::SetFreq { raw: Some(b), .. } => f64::from_bits(*b),
        Op::SetFreq { num, .. } => *num as f64 / PPM_DEN as f64,
        _ => 0.0,
    }
}

struct Ref {
    /// reference reading (units), error bound tracked separately
    r: i128,
    /// ppm numerator over 2^20 (rounded for raw values; the slack covers the rounding)
    ppm_num: i128,
    tol: i128,
    raw_ppm: bool,
    elapsed_since_adjust: u128,
}

impl Ref {
    fn advance(&mut self, du: u128) {
        let corr = (du as i128 * self.ppm_num) / (PPM_DEN * 1_000_000);
        self.r += du as i128 + corr;
        // implementation recomputes corr from the total elapsed time since the last adjustment,
        // the reference accumulates per advance: one unit of rounding per advance, plus the ppm
        // quantisation of arbitrary f64 values (2^-20 ppm here, 2^-33 ppm in I96F32)
        self.tol += 2;
        if self.raw_ppm {
            self.tol += (du as i128 >> 20) / 1_000_000 + 1;
        }
        self.elapsed_since_adjust += du;
    }
}

fn classify_ppm(num: i128) -> &'static str {
    if num == 0 {
        "ppm=0"
    } else {
        "ppm!=0"
    }
}

pub fn run_case(case: &Case, rep: &mut Report, verbose: bool) -> bool {
    let u = Arc::new(Mutex::new(case.start));
    let fake = Fake(u.clone());
    let mut ok = true;
    let replay = || serde_json::to_value(case).unwrap();
    let built = guarded(|| OverlayClock::new(fake.clone()));
    let overlay = match built {
        Ok(o) => o,
        Err(p) => {
            rep.violation("C18|new|panic", &format!("OverlayClock::new panicked: {}", p.message), replay());
            return false;
        }
    };
    enum Clk {
        Plain(OverlayClock<Fake>),
        Shared(SharedClock<OverlayClock<Fake>>),
    }
    impl Clk {
        fn now(&self) -> Time {
            match self {
                Clk::Plain(c) => c.now(),
                Clk::Shared(c) => c.now(),
            }
        }
        fn set_frequency(&mut self, p: f64) -> Result<Time, ()> {
            match self {
                Clk::Plain(c) => c.set_frequency(p),
                Clk::Shared(c) => c.set_frequency(p),
            }
        }
        fn step_clock(&mut self, d: Duration) -> Result<Time, ()> {
            match self {
                Clk::Plain(c) => c.step_clock(d),
                Clk::Shared(c) => c.step_clock(d),
            }
        }
        fn tfu(&self, t: Time) -> Time {
            match self {
                Clk::Plain(c) => c.time_from_underlying(t),
                Clk::Shared(c) => c.0.lock().unwrap().time_from_underlying(t),
            }
        }
    }
    let mut clk = if case.shared { Clk::Shared(SharedClock::new(overlay)) } else { Clk::Plain(overlay) };
    let mut rf = Ref { r: case.start as i128, ppm_num: 0, tol: 4, raw_ppm: false, elapsed_since_adjust: 0 };
    let mut probes: Vec<(u128, u128)> = vec![];
    let mut viol = |rep: &mut Report, clause: &str, class: &str, detail: String| {
        rep.violation(&format!("C18|{clause}|{class}"), &format!("{clause} [{class}]: {detail}"), replay());
    };
    for (i, op) in case.ops.iter().enumerate() {
        let before = match guarded(|| time_units(clk.now())) {
            Ok(v) => v,
            Err(p) => {
                viol(rep, "now", "panic", format!("op {i}: {}", p.message));
                return false;
            }
        };
        if (before as i128 - rf.r).abs() > rf.tol {
            viol(
                rep,
                "rate",
                classify_ppm(rf.ppm_num),
                format!("op {i}: reading {before} differs from reference {} by {} units (tol {})", rf.r, before as i128 - rf.r, rf.tol),
            );
            return false;
        }
        // resynchronise the reference on the observed value so errors do not accumulate
        rf.r = before as i128;
        rf.tol = 4;
        match op {
            Op::Advance { units } => {
                rep.ev("advance");
                let mut g = u.lock().unwrap();
                *g += *units;
                drop(g);
                rf.advance(*units);
                if rf.elapsed_since_adjust > 86_400 * SEC {
                    rep.ev("advance_more_than_a_day_after_the_last_adjustment");
                }
                let now_u = *u.lock().unwrap();
                if let Ok(r) = guarded(|| time_units(clk.now())) {
                    probes.push((now_u, r));
                    if probes.len() > 8 {
                        probes.remove(0);
                    }
                }
            }
            Op::SetFreq { .. } => {
                rep.ev("set_frequency");
                let ppm = ppm_of(op);
                let r = guarded(|| clk.set_frequency(ppm).map(time_units));
                match r {
                    Ok(Ok(ret)) => {
                        let after = time_units(clk.now());
                        if (after as i128 - before as i128).abs() > 4 {
                            viol(rep, "freq-continuity", classify_ppm(rf.ppm_num), format!("op {i}: reading {before} -> {after} across set_frequency({ppm}) at constant underlying time (elapsed since last adjustment {} units)", rf.elapsed_since_adjust));
                            ok = false;
                        }
                        if (ret as i128 - after as i128).abs() > 4 {
                            viol(rep, "freq-return", "value", format!("op {i}: set_frequency returned {ret}, now() is {after}"));
                            ok = false;
                        }
                    }
                    Ok(Err(())) => {
                        viol(rep, "set_frequency", "error", format!("op {i}: returned Err"));
                        ok = false;
                    }
                    Err(p) => {
                        viol(rep, "set_frequency", "panic", format!("op {i}: {} at {}", p.message, p.location));
                        return false;
                    }
                }
                match op {
                    Op::SetFreq { raw: Some(_), .. } => {
                        rf.ppm_num = (ppm * PPM_DEN as f64).round() as i128;
                        rf.raw_ppm = true;
                    }
                    Op::SetFreq { num, .. } => {
                        rf.ppm_num = *num as i128;
                        rf.raw_ppm = false;
                    }
                    _ => {}
                }
                rf.elapsed_since_adjust = 0;
                probes.clear();
            }
            Op::Step { units } => {
                rep.ev("step_clock");
                let d = dur_from_units(*units);
                let r = guarded(|| clk.step_clock(d).map(time_units));
                match r {
                    Ok(Ok(ret)) => {
                        let after = time_units(clk.now());
                        let jump = after as i128 - before as i128;
                        if (jump - *units).abs() > 4 {
                            let class = format!("{},{}", classify_ppm(rf.ppm_num), if rf.elapsed_since_adjust > 0 { "elapsed>0" } else { "elapsed=0" });
                            viol(
                                rep,
                                "step-jump",
                                &class,
                                format!(
                                    "op {i}: step_clock({} units = {:.9} s) moved the reading by {} units ({:.9} s) at constant underlying time; ppm={}, underlying elapsed since last adjustment {:.3} s",
                                    units,
                                    units_to_ns_f64(*units) / 1e9,
                                    jump,
                                    units_to_ns_f64(jump) / 1e9,
                                    rf.ppm_num as f64 / PPM_DEN as f64,
                                    units_to_ns_f64(rf.elapsed_since_adjust as i128) / 1e9
                                ),
                            );
                            ok = false;
                        }
                        if (ret as i128 - after as i128).abs() > 4 {
                            viol(rep, "step-return", "value", format!("op {i}: step_clock returned {ret}, now() is {after}"));
                            ok = false;
                        }
                        // keep following the implementation so that later ops are judged on their own
                        rf.r = after as i128 - *units;
                    }
                    Ok(Err(())) => {
                        viol(rep, "step_clock", "error", format!("op {i}: returned Err"));
                        ok = false;
                    }
                    Err(p) => {
                        viol(rep, "step_clock", "panic", format!("op {i}: {} at {}", p.message, p.location));
                        return false;
                    }
                }
                rf.r += *units;
                rf.elapsed_since_adjust = 0;
                probes.clear();
            }
            Op::Probe => {
                rep.ev("probe");
                let now_u = *u.lock().unwrap();
                match guarded(|| (time_units(clk.tfu(time_from_units(now_u))), time_units(clk.now()))) {
                    Ok((conv, now)) => {
                        if conv != now {
                            viol(rep, "convert-now", "value", format!("op {i}: time_from_underlying(U_now)={conv} but now()={now}"));
                            ok = false;
                        }
                    }
                    Err(p) => {
                        viol(rep, "convert-now", "panic", format!("op {i}: {}", p.message));
                        return false;
                    }
                }
                for (pu, pr) in probes.clone() {
                    rep.ev("probe_past");
                    match guarded(|| time_units(clk.tfu(time_from_units(pu)))) {
                        Ok(conv) => {
                            if (conv as i128 - pr as i128).abs() > 4 {
                                viol(rep, "convert-past", classify_ppm(rf.ppm_num), format!("op {i}: underlying {pu} read {pr} when it was current, converts to {conv} now (no adjustment in between)"));
                                ok = false;
                            }
                        }
                        Err(p) => {
                            viol(rep, "convert-past", "panic", format!("op {i}: {}", p.message));
                            return false;
                        }
                    }
                }
            }
        }
        if verbose {
            eprintln!("op {i}: {op:?} -> reading {}", time_units(clk.now()));
        }
    }
    ok
}

fn gen_ppm(rng: &mut StdRng) -> Op {
    match rng.gen_range(0..10) {
        0 => Op::SetFreq { num: 0, raw: None },
        1 => Op::SetFreq { num: 500 * PPM_DEN as i64, raw: None },
        2 => Op::SetFreq { num: -500 * PPM_DEN as i64, raw: None },
        3 => Op::SetFreq { num: [1i64, -1, 1 << 20, -(1 << 20)][rng.gen_range(0..4)], raw: None },
        4 | 5 => Op::SetFreq { num: 0, raw: Some(rng.gen_range(-500.0f64..500.0).to_bits()) },
        _ => Op::SetFreq { num: rng.gen_range(-500 * PPM_DEN as i64..=500 * PPM_DEN as i64), raw: None },
    }
}

fn gen_step(rng: &mut StdRng) -> Op {
    let s10 = (10 * SEC) as i128;
    let u = match rng.gen_range(0..8) {
        0 => s10,
        1 => -s10,
        2 => 0,
        3 => [1i128, -1, 1 << 32, -(1 << 32)][rng.gen_range(0..4)],
        4 => rng.gen_range(-(1i128 << 42)..(1i128 << 42)),
        _ => rng.gen_range(-s10..=s10),
    };
    Op::Step { units: u }
}

fn gen_adv(rng: &mut StdRng) -> Op {
    let max = 10_000 * SEC;
    let u = match rng.gen_range(0..8) {
        0 => 0,
        1 => 1,
        2 => rng.gen_range(0..(1u128 << 32)),
        3 => max,
        4 => rng.gen_range(0..SEC),
        _ => rng.gen_range(0..=max),
    };
    Op::Advance { units: u }
}

fn gen_case(rng: &mut StdRng, len: usize) -> Case {
    let start = match rng.gen_range(0..4) {
        0 => 100 * SEC + rng.gen_range(0..SEC),
        1 => ((1u128 << 48) - 2_000_000) * 1_000_000_000u128 << 32,
        _ => rng.gen_range(100 * SEC..((1u128 << 47) * 1_000_000_000u128 << 32)),
    };
    let mut ops = vec![];
    let mut net_step: i128 = 0;
    // a long quiet period (hours to a week of underlying time without any adjustment)
    let idle_at = if rng.gen_bool(0.15) { rng.gen_range(0..len) } else { usize::MAX };
    for k in 0..len {
        if k == idle_at {
            ops.push(gen_ppm(rng));
            for _ in 0..rng.gen_range(2..=60) {
                ops.push(Op::Advance { units: if rng.gen_bool(0.8) { 10_000 * SEC } else { rng.gen_range(0..=10_000 * SEC) } });
                if rng.gen_bool(0.1) {
                    ops.push(Op::Probe);
                }
            }
            ops.push(Op::Probe);
        }
        let op = match rng.gen_range(0..10) {
            0..=2 => gen_ppm(rng),
            3..=4 => {
                let mut s = gen_step(rng);
                if let Op::Step { units } = &mut s {
                    // keep the clock at least 10 s above zero
                    if net_step + *units < -((80 * SEC) as i128) {
                        *units = -*units;
                    }
                    net_step += *units;
                }
                s
            }
            5..=7 => gen_adv(rng),
            _ => Op::Probe,
        };
        ops.push(op);
    }
    ops.push(Op::Probe);
    Case { start, shared: rng.gen_bool(0.2), ops }
}

/// An underlying clock that advances on every read, as every real clock does: (next value, tick).
#[derive(Clone)]
struct Ticking(Arc<Mutex<(u128, u128, u128)>>); // (next, tick, last returned)

impl Clock for Ticking {
    type Error = ();
    fn now(&self) -> Time {
        let mut g = self.0.lock().unwrap();
        let v = g.0;
        g.0 += g.1;
        g.2 = v;
        time_from_units(v)
    }
    fn step_clock(&mut self, _o: Duration) -> Result<Time, ()> {
        Err(())
    }
    fn set_frequency(&mut self, _p: f64) -> Result<Time, ()> {
        Err(())
    }
    fn set_properties(&mut self, _t: &TimePropertiesDS) -> Result<(), ()> {
        Ok(())
    }
}

/// Continuity and returned times over an underlying clock that moves between any two reads: what the
/// overlay gains between two of its own readings is what the underlying clock gained between the two
/// reads that produced them (plus an applied step, plus the frequency correction on those few
/// microseconds), however many times an adjustment call looks at the underlying clock in between.
fn ticking_overlay(rep: &mut Report, seed: u64) {
    let replay = json!({"ticking_overlay_seed": seed});
    let mut rng = StdRng::seed_from_u64(seed);
    let tick: u128 = [1_000u128 << 32, 100u128 << 32, 37_000u128 << 32][rng.gen_range(0..3)];
    let inner = Arc::new(Mutex::new((1_700_000_000u128 * SEC, tick, 0u128)));
    let r = guarded(|| {
        let mut ov = OverlayClock::new(Ticking(inner.clone()));
        let mut problems: Vec<String> = vec![];
        let mut ppm_now = 0.0f64;
        for k in 0..rng.gen_range(3..12) {
            // let some time pass
            inner.lock().unwrap().0 += rng.gen_range(0..(5 * SEC));
            let r0 = time_units(ov.now()) as i128;
            let u0 = inner.lock().unwrap().2 as i128;
            let (what, ret, step) = if rng.gen_bool(0.6) {
                let ppm = [400.0, -250.0, 12.5, 0.0, 499.0][rng.gen_range(0..5)];
                let ret = ov.set_frequency(ppm);
                let old = ppm_now;
                ppm_now = ppm;
                (format!("set_frequency({ppm}) after {old} ppm"), ret, 0i128)
            } else {
                let d: i128 = [(3 * SEC) as i128, -((2 * SEC) as i128), 1 << 32, 0][rng.gen_range(0..4)];
                (format!("step_clock({} ns)", d >> 32), ov.step_clock(dur_from_units(d)), d)
            };
            let r1 = time_units(ov.now()) as i128;
            let u1 = inner.lock().unwrap().2 as i128;
            let under = u1 - u0;
            // frequency correction on `under` (a few ticks) at <= 500 ppm, plus rounding
            let tol = under / 1000 + (4 << 32);
            if ((r1 - r0) - under - step).abs() > tol {
                problems.push(format!(
                    "op {k} {what}: the overlay reading went from {r0} to {r1} ({} ns) while the underlying clock went {} ns between the two reads (+ step {} ns): {} ns are missing",
                    (r1 - r0) >> 32,
                    under >> 32,
                    step >> 32,
                    (under + step - (r1 - r0)) >> 32
                ));
            }
            if let Ok(t) = ret {
                let t = time_units(t) as i128;
                if t < r0 + step.min(0) - tol || t > r1 + step.max(0).min(0) + tol {
                    problems.push(format!("op {k} {what}: returned time {t} is outside of the readings taken right before ({r0}) and after ({r1}) the call"));
                }
            }
        }
        problems
    });
    match r {
        Ok(problems) => {
            rep.ev("ticking_underlying_clock_ops");
            for p in problems.iter().take(2) {
                rep.violation("C18|ticking-underlying|continuity", p, replay.clone());
            }
        }
        Err(p) => rep.violation(&format!("C18|panic|{}|{}", p.site(), p.class()), &format!("overlay over a ticking clock panicked: {}", p.describe()), replay),
    }
}

/// The overlay as the daemon uses it with `virtual-system-clock`: `SharedClock<OverlayClock<LinuxClock>>`
/// over the real (read-only) CLOCK_TAI. Converting a packet timestamp of the underlying clock must
/// agree with the overlay's own mapping of that instant, through every wrapper.
fn linux_overlay(rep: &mut Report, seed: u64) {
    use statime_linux::clock::{LinuxClock, PortTimestampToTime};
    let replay = json!({"linux_overlay_seed": seed});
    let mut rng = StdRng::seed_from_u64(seed);
    let r = guarded(|| {
        let mut shared = SharedClock::new(OverlayClock::new(LinuxClock::CLOCK_TAI));
        let mut problems: Vec<String> = vec![];
        for _ in 0..rng.gen_range(1..6) {
            if rng.gen_bool(0.6) {
                let d = [5i64, -3, 1_000, 37][rng.gen_range(0..4)] * 1_000_000_000 + rng.gen_range(0..1_000_000_000i64);
                let _ = shared.step_clock(Duration::from_nanos(d));
            } else {
                let _ = shared.set_frequency([400.0, -250.0, 12.5, 0.0][rng.gen_range(0..4)]);
            }
            // packet timestamps around "now" of the underlying clock and far from it
            let now_raw = LinuxClock::CLOCK_TAI.now();
            let base_s = (now_raw.secs() as i64).saturating_sub(37);
            for off in [0i64, 1, -1, 10_000, -10_000] {
                let ts = timestamped_socket::socket::Timestamp { seconds: base_s + off, nanos: rng.gen_range(0..1_000_000_000) };
                let via_shared = shared.port_timestamp_to_time(ts);
                let (via_overlay, mapped) = {
                    let g = shared.0.lock().unwrap();
                    let raw = g.underlying().port_timestamp_to_time(ts);
                    (g.port_timestamp_to_time(ts), g.time_from_underlying(raw))
                };
                if via_shared != mapped || via_overlay != mapped {
                    problems.push(format!(
                        "timestamp {}.{:09}: SharedClock gives {:?}, OverlayClock gives {:?}, the overlay maps that underlying instant to {:?}",
                        ts.seconds, ts.nanos, via_shared, via_overlay, mapped
                    ));
                }
            }
        }
        problems
    });
    match r {
        Ok(problems) => {
            rep.ev("linux_overlay_conversions");
            for p in problems.iter().take(2) {
                rep.violation("C18|port-timestamp|disagrees-with-overlay-mapping", p, replay.clone());
            }
        }
        Err(p) => rep.violation(&format!("C18|panic|{}|{}", p.site(), p.class()), &format!("overlay over LinuxClock panicked: {}", p.describe()), replay),
    }
}

pub fn run(rep: &mut Report, tier: &str, seed: u64, shard: (u32, u32), replay: Option<&str>) {
    rep.rule = "operation sequences over {set_frequency, step_clock, advance underlying, probe}; all kind pairs/triples with lattice values enumerated, then seeded random sequences of length <= 50; distinct = distinct sequences; non-trivial = contains at least one adjustment and one advance".into();
    rep.require(&["advance", "set_frequency", "step_clock", "probe", "probe_past", "linux_overlay_conversions", "ticking_underlying_clock_ops", "advance_more_than_a_day_after_the_last_adjustment"]);
    if let Some(path) = replay {
        let v: serde_json::Value = serde_json::from_str(&std::fs::read_to_string(path).unwrap()).unwrap();
        let case: Case = serde_json::from_value(v["case"].clone()).unwrap();
        let ok = run_case(&case, rep, true);
        println!("replay: {}", if ok { "no violation" } else { "VIOLATION reproduced" });
        for f in rep.findings.values() {
            println!("  {}", f.what);
        }
        return;
    }
    let mut rng = StdRng::seed_from_u64(seed ^ 0xc18 ^ ((shard.0 as u64) << 40));
    for k in 0..if tier == "thorough" { 200 } else { 20 } {
        linux_overlay(rep, seed.wrapping_add(k));
        ticking_overlay(rep, seed.wrapping_add(1000 + k));
    }
    if shard.0 == 0 {
        // enumerated pairs / triples over lattice values
        let freqs = [0i64, 500 << 20, -(500 << 20), 1 << 20, 123_456_789];
        let steps = [0i128, (10 * SEC) as i128, -((10 * SEC) as i128), 1, (SEC / 3) as i128];
        let advs = [0u128, 1, SEC, 100 * SEC, 10_000 * SEC];
        let mut lattice_ops: Vec<Op> = vec![];
        for f in freqs {
            lattice_ops.push(Op::SetFreq { num: f, raw: None });
        }
        for s in steps {
            lattice_ops.push(Op::Step { units: s });
        }
        for a in advs {
            lattice_ops.push(Op::Advance { units: a });
        }
        for a in &lattice_ops {
            for b in &lattice_ops {
                for c in &lattice_ops {
                    let case = Case {
                        start: 1000 * SEC + 12345,
                        shared: false,
                        ops: vec![a.clone(), Op::Probe, b.clone(), Op::Probe, c.clone(), Op::Probe, Op::Advance { units: 7 * SEC }, Op::Probe],
                    };
                    run_case(&case, rep, false);
                    rep.evaluations += 1;
                    rep.distinct_case(&format!("{:?}", case.ops));
                }
            }
        }
        rep.extra.insert("enumerated_triples".into(), json!(lattice_ops.len().pow(3)));
    }
    let n: u64 = if tier == "thorough" { 400_000 } else { 60_000 };
    let budget = Budget::new(n, if tier == "thorough" { 300.0 } else { 20.0 });
    let mut i = 0;
    while budget.left(i) {
        i += 1;
        let len = rng.gen_range(2..=50);
        let case = gen_case(&mut rng, len);
        run_case(&case, rep, false);
        rep.evaluations += 1;
        rep.distinct_case(&format!("{:?}{}", case.ops, case.start));
        if i <= 2 {
            rep.sample(serde_json::to_value(&Case { ops: case.ops.iter().take(8).cloned().collect(), ..case.clone() }).unwrap());
        }
    }
}
