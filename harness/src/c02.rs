//! C02 - a slave port drives its clock to the master's time and keeps it there.
//! Closed loop of real code on both sides; the truth is computed from the two clock models.

use std::sync::{Arc, Mutex};

use rand::rngs::StdRng;
use rand::{Rng, SeedableRng};
use serde_json::json;
use statime::filters::KalmanConfiguration;
use statime::observability::port::PortState;

use crate::drive::*;
use crate::node::*;
use crate::report::*;
use crate::sim::*;

#[derive(Clone, Debug, serde::Serialize, serde::Deserialize)]
pub struct Params {
    pub offset_s: f64,
    pub ppm: f64,
    pub delay_ns: u64,
    pub jitter_ns: u64,
    pub log_sync: i8,
    pub log_delay: i8,
    pub one_step: bool,
    pub seed: u64,
    /// the slave's host reports transmit timestamps only after the round trip (asynchronous
    /// timestamp retrieval): every Delay_Resp is handled before its Delay_Req's timestamp
    #[serde(default)]
    pub late_tx_ts: bool,
    /// time base of both clocks: 0 = 1.7e9 s (today), 1 = 2^40 s, 2 = 2^47 s + 12345 s (the far end
    /// of the 48-bit seconds range a PTP timestamp can carry)
    #[serde(default)]
    pub base_kind: u8,
    /// a second, worse, two-step master with a masterOnly port on the same segment, its clock
    /// `second_master_off_s` away, its Sync sequence ids in lockstep with the parent's
    /// (0 = absent, 1 = same ids, 2 = one ahead)
    #[serde(default)]
    pub second_master: u8,
    #[serde(default)]
    pub second_master_off_s: f64,
    /// the slave is a boundary clock: a second port (P2P) is first slave of a worse clock on its
    /// own link (the master's link comes up 8 s later), then master there; it keeps measuring its
    /// link delay against a responding peer while port 1 is slave of the master
    #[serde(default)]
    pub bc_p2p_sibling: bool,
    /// domainNumber of every instance in the run
    #[serde(default)]
    pub domain: u8,
    /// KalmanConfiguration::steer_time in seconds (0 = the default configuration, 2 s)
    #[serde(default)]
    pub steer_time_s: f64,
}

pub struct Outcome {
    /// last time (s) at which |true offset| exceeded the bound, None if never after t=0
    pub last_exceed_s: Option<f64>,
    pub last_step_s: Option<f64>,
    pub max_abs_after_tc_ns: f64,
    pub rms_after_tc_ns: f64,
    pub became_slave: bool,
    pub panicked: Option<PanicInfo>,
    pub n_set_freq: usize,
    pub n_step: usize,
    pub max_freq: f64,
}

pub fn bound_ns(p: &Params) -> f64 {
    (1000.0f64).max(p.jitter_ns as f64)
}

pub fn tc_s(p: &Params) -> f64 {
    // calibrated on the unchanged tree over 4000 seeded runs (Appendix A of DESIGN.md): last
    // excursion beyond the bound at 215.5 s (sync <= 1 s) / 493.5 s (2 s), last step at 402 s;
    // the bounds keep a factor >= 2
    if p.log_sync >= 1 {
        1000.0
    } else {
        450.0
    }
}

/// Largest (last bound exceedance, last step) times in seconds that the unchanged tree showed over
/// 33 000 closed-loop runs of the *clean start classes* (slave more than 0.2 s behind the master,
/// or at least 5 s ahead of it), per (log sync interval, log delay interval) in -3..=1. In these
/// classes the servo's first step cannot pollute its measurement-noise estimate (the sample
/// stored before a backward step of s seconds is only re-used if the next sample of the other
/// kind arrives s +- 0.2 s later, impossible for s >= 5 s with intervals <= 2 s), so the
/// convergence time has a short tail; the other classes keep the generic bound `tc_s`.
/// Calibration: DESIGN.md Appendix A.
const CLEAN_MAX: [[(f64, f64); 5]; 5] = [
    [(30.7, 17.6), (24.7, 13.2), (31.4, 16.6), (44.4, 14.2), (73.5, 20.8)],
    [(29.3, 16.6), (24.8, 9.9), (32.0, 10.3), (50.3, 18.1), (77.5, 19.4)],
    [(31.1, 17.0), (30.9, 10.4), (40.3, 12.4), (60.7, 16.5), (94.7, 31.2)],
    [(44.9, 12.2), (45.7, 16.2), (74.2, 18.6), (109.7, 42.1), (181.5, 57.2)],
    [(55.5, 17.3), (69.4, 19.9), (111.1, 32.4), (196.2, 73.7), (309.1, 125.6)],
];

/// (offset deadline, step deadline) in seconds for the clean start classes: twice the calibrated
/// worst case, with floors of 60 s / 30 s
pub fn clean_class_deadlines(p: &Params) -> Option<(f64, f64)> {
    if !(p.offset_s < -0.2 || p.offset_s >= 5.0) {
        return None;
    }
    // with a second master on the segment the slave may follow that one first (it announces
    // earlier); the calibration was made without it, so only the generic bound applies
    if p.second_master > 0 || p.bc_p2p_sibling || p.steer_time_s > 0.0 {
        return None;
    }
    if !(-3..=1).contains(&p.log_sync) || !(-3..=1).contains(&p.log_delay) {
        return None;
    }
    let (e, s) = CLEAN_MAX[(p.log_sync + 3) as usize][(p.log_delay + 3) as usize];
    Some(((2.0 * e).max(60.0), (2.0 * s).max(30.0)))
}

pub const T0_UNITS: u128 = 1_700_000_000u128 * SEC;

pub fn t0_units(p: &Params) -> u128 {
    match p.base_kind {
        1 => (1u128 << 40) * SEC,
        2 => ((1u128 << 47) + 12345) * SEC,
        _ => T0_UNITS,
    }
}

pub fn simulate(p: &Params, horizon_s: f64) -> Outcome {
    let mut out = Outcome {
        last_exceed_s: None,
        last_step_s: None,
        max_abs_after_tc_ns: 0.0,
        rms_after_tc_ns: 0.0,
        became_slave: false,
        panicked: None,
        n_set_freq: 0,
        n_step: 0,
        max_freq: 0.0,
    };
    let mut sim = Sim::new(p.seed);
    // master: perfect clock, best priority
    let t0 = t0_units(p);
    let mclock = Arc::new(Mutex::new(SimClock::new(0, t0, 0.0)));
    mclock.lock().unwrap().record = false;
    let mut mb = Build::new(0x10);
    mb.priority1 = 100;
    mb.log_sync = p.log_sync;
    mb.domain = p.domain;
    mb.log_delay = p.log_delay;
    mb.clock = Some(mclock.clone());
    mb.seed = p.seed ^ 1;
    let Ok(m) = mb.build() else { return out };
    // slave: offset + oscillator error, the real Kalman servo with the daemon's defaults
    let off_units = (p.offset_s * 1e9 * 4294967296.0) as i128;
    let sclock = Arc::new(Mutex::new(SimClock::new(0, (t0 as i128 + off_units) as u128, p.ppm)));
    let mut sb = Build::new(0x20);
    sb.priority1 = 200;
    sb.log_sync = p.log_sync;
    sb.domain = p.domain;
    sb.log_delay = p.log_delay;
    let mut kcfg = KalmanConfiguration::default();
    if p.steer_time_s > 0.0 {
        kcfg.steer_time = statime::time::Duration::from_seconds(p.steer_time_s);
    }
    sb.filter = Some(FilterCfg::Kalman(kcfg));
    sb.clock = Some(sclock.clone());
    sb.seed = p.seed ^ 2;
    if p.bc_p2p_sibling {
        sb.n_ports = 2;
        sb.p2p_ports = vec![false, true];
    }
    let Ok(s) = sb.build() else { return out };
    let mi = sim.add_node(m.node, (p.seed % 1_000_000_000) as u64);
    let si = sim.add_node(s.node, ((p.seed >> 20) % 1_000_000_000) as u64);
    sim.one_step = vec![p.one_step, false];
    if p.late_tx_ts {
        sim.nodes[si].tx_ts_latency_ns = 2 * (p.delay_ns + p.jitter_ns) + 1_000_000;
    }
    let mut ends = vec![(mi, 0), (si, 0)];
    if p.second_master > 0 {
        let off2 = (p.second_master_off_s * 1e9 * 4294967296.0) as i128;
        let c2 = Arc::new(Mutex::new(SimClock::new(0, (t0 as i128 + off2) as u128, -p.ppm / 3.0)));
        c2.lock().unwrap().record = false;
        let mut b2 = Build::new(0x30);
        b2.priority1 = 150;
        b2.log_sync = p.log_sync;
        b2.domain = p.domain;
        b2.log_delay = p.log_delay;
        b2.master_only = vec![true];
        b2.clock = Some(c2);
        b2.seed = p.seed ^ 3;
        let Ok(m2) = b2.build() else { return out };
        let m2i = sim.add_node(m2.node, ((p.seed >> 40) % 1_000_000_000) as u64);
        sim.one_step.push(false);
        sim.sync_seq_lockstep = Some((m2i, mi, p.second_master as u16 - 1));
        ends.push((m2i, 0));
    }
    let master_link = sim.add_link(ends, p.delay_ns, p.jitter_ns, 0.0);
    let mut master_link_up = true;
    if p.bc_p2p_sibling {
        let c3 = Arc::new(Mutex::new(SimClock::new(0, (t0 as i128 + (p.second_master_off_s * 1e9 * 4294967296.0) as i128) as u128, 0.0)));
        c3.lock().unwrap().record = false;
        let mut b3 = Build::new(0x40);
        b3.priority1 = 150;
        b3.p2p = true;
        b3.log_sync = p.log_sync;
        b3.domain = p.domain;
        b3.log_delay = p.log_delay;
        b3.clock = Some(c3);
        b3.seed = p.seed ^ 4;
        let Ok(n3) = b3.build() else { return out };
        let n3i = sim.add_node(n3.node, ((p.seed >> 30) % 1_000_000_000) as u64);
        while sim.one_step.len() <= n3i {
            sim.one_step.push(false);
        }
        sim.add_link(vec![(si, 1), (n3i, 0)], p.delay_ns, p.jitter_ns, 0.0);
        sim.set_link(master_link, false);
        master_link_up = false;
    }
    let bound = bound_ns(p);
    let tc = tc_s(p);
    let horizon = (horizon_s * 1e9) as u64;
    let sample_every = 100_000_000u64;
    let mut next_sample = sample_every;
    let mut sumsq = 0.0;
    let mut nsamp = 0u64;
    loop {
        let Some(nt) = sim.next_time() else { break };
        if nt > horizon {
            break;
        }
        if !master_link_up && nt >= 8_000_000_000 {
            sim.set_link(master_link, true);
            master_link_up = true;
        }
        while next_sample <= nt {
            // truth at the sample instant
            let tu = ns_units(next_sample);
            let sr = sclock.lock().unwrap().read_at(tu) as i128;
            let mr = mclock.lock().unwrap().read_at(tu) as i128;
            let off_ns = units_to_ns_f64(sr - mr);
            let ts = next_sample as f64 / 1e9;
            if off_ns.abs() > bound {
                out.last_exceed_s = Some(ts);
            }
            if ts > tc {
                if off_ns.abs() > out.max_abs_after_tc_ns {
                    out.max_abs_after_tc_ns = off_ns.abs();
                }
                sumsq += off_ns * off_ns;
                nsamp += 1;
            }
            next_sample += sample_every;
        }
        if !sim.step() {
            break;
        }
    }
    if let Some((_, _, _, p)) = &sim.panic {
        out.panicked = Some(p.clone());
    }
    out.became_slave = sim.nodes[si].node.port_state(0) == PortState::Slave;
    let log = sclock.lock().unwrap().log.clone();
    for c in &log {
        match c.kind {
            ClockCallKind::StepClock(_) => {
                out.n_step += 1;
                out.last_step_s = Some(c.true_time as f64 / 4294967296.0 / 1e9);
            }
            ClockCallKind::SetFrequency(f) => {
                out.n_set_freq += 1;
                if f.abs() > out.max_freq {
                    out.max_freq = f.abs();
                }
            }
            _ => {}
        }
    }
    if nsamp > 0 {
        out.rms_after_tc_ns = (sumsq / nsamp as f64).sqrt();
    }
    out
}

pub fn gen_params(rng: &mut StdRng, i: u64) -> Params {
    // corners + latin-hypercube-ish random interior
    let corner = i % 4 == 0;
    let pick = |rng: &mut StdRng, lo: f64, hi: f64| if corner { if rng.gen_bool(0.5) { lo } else { hi } } else { rng.gen_range(lo..=hi) };
    let p = Params {
        offset_s: pick(rng, -10.0, 10.0) * if rng.gen_bool(0.15) { 1e-4 } else { 1.0 },
        ppm: pick(rng, -150.0, 150.0),
        delay_ns: pick(rng, 1_000.0, 400_000.0) as u64,
        jitter_ns: if rng.gen_bool(0.2) { 0 } else { pick(rng, 0.0, 20_000.0) as u64 },
        log_sync: [-3i8, -2, -1, 0, 1][rng.gen_range(0..5)],
        log_delay: [-3i8, -2, -1, 0, 1][rng.gen_range(0..5)],
        one_step: rng.gen_bool(0.4),
        seed: rng.gen(),
        late_tx_ts: rng.gen_bool(0.2),
        base_kind: [0u8, 0, 0, 0, 1, 2][rng.gen_range(0..6)],
        second_master: [0u8, 0, 0, 0, 1, 2, 2][rng.gen_range(0..7)],
        second_master_off_s: [0.001, -0.004, 0.3, -1.7][rng.gen_range(0..4)] * rng.gen_range(0.5..1.0),
        bc_p2p_sibling: false,
        domain: [0u8, 0, 0, 1, 24, 127, 255][rng.gen_range(0..7)],
        steer_time_s: [0.0f64, 0.0, 0.0, 0.0, 0.0, 0.5, 0.75, 1.5, 3.25][rng.gen_range(0..9)],
    };
    let mut p = p;
    if p.second_master == 0 && rng.gen_bool(0.2) {
        p.bc_p2p_sibling = true;
    }
    p
}

pub fn run_case(rep: &mut Report, p: &Params, hist: &mut Vec<f64>, conv: &mut Vec<f64>) {
    let replay = serde_json::to_value(p).unwrap();
    let tc = tc_s(p);
    let o = simulate(p, tc + 300.0);
    rep.evaluations += 1;
    if let Some(pn) = &o.panicked {
        // a panic is C03's business; here it only means the run says nothing about C02
        rep.observe(&format!("run aborted by panic: {} ({})", pn.class(), pn.site()));
        return;
    }
    if !o.became_slave {
        rep.violation("C02|never-slave", "slave port never reached the Slave state in the closed loop", replay);
        return;
    }
    rep.ev("closed_loop_run");
    if p.late_tx_ts {
        rep.ev("closed_loop_run_with_late_tx_timestamps");
    }
    if p.base_kind != 0 {
        rep.ev("closed_loop_run_far_future_time_base");
    }
    if p.second_master > 0 {
        rep.ev("closed_loop_run_with_second_master_on_segment");
    }
    if p.bc_p2p_sibling {
        rep.ev("closed_loop_run_boundary_clock_with_p2p_sibling_port");
    }
    if p.domain != 0 {
        rep.ev("closed_loop_run_in_a_non_default_domain");
    }
    if p.steer_time_s > 0.0 {
        rep.ev("closed_loop_run_with_non_default_steer_time");
    }
    if let Ok(path) = std::env::var("VP_C02_DUMP") {
        use std::io::Write;
        if let Ok(mut f) = std::fs::OpenOptions::new().create(true).append(true).open(path) {
            let _ = writeln!(f, "{}", json!({"p": p, "last_exceed": o.last_exceed_s, "last_step": o.last_step_s, "n_step": o.n_step}));
        }
    }
    rep.evn("set_frequency_calls", o.n_set_freq as u64);
    rep.evn("step_clock_calls", o.n_step as u64);
    hist.push(o.max_abs_after_tc_ns / bound_ns(p));
    conv.push(o.last_exceed_s.unwrap_or(0.0));
    {
        let key = if p.log_sync >= 1 { "max_last_exceed_s_sync2s" } else { "max_last_exceed_s_sync_le_1s" };
        let e = rep.extra.entry(key.into()).or_insert(json!(0.0));
        if o.last_exceed_s.unwrap_or(0.0) > e.as_f64().unwrap_or(0.0) {
            *e = json!(o.last_exceed_s.unwrap_or(0.0));
        }
        let e = rep.extra.entry("max_last_step_s".into()).or_insert(json!(0.0));
        if o.last_step_s.unwrap_or(0.0) > e.as_f64().unwrap_or(0.0) {
            *e = json!(o.last_step_s.unwrap_or(0.0));
        }
    }
    let sync_class = if p.log_sync >= 1 { "sync=2s" } else { "sync<=1s" };
    if let Some(t) = o.last_exceed_s {
        if t > tc {
            let ratio = o.max_abs_after_tc_ns / bound_ns(p);
            let class = if ratio > 10.0 { "diverged-or-oscillating" } else { "outside-bound" };
            rep.violation(
                &format!("C02|offset-bound|{class}|{sync_class}"),
                &format!("true offset exceeded max(1us, jitter)={:.0} ns at t={t:.1}s > Tc={tc}s; max |offset| after Tc {:.0} ns (rms {:.0} ns)", bound_ns(p), o.max_abs_after_tc_ns, o.rms_after_tc_ns),
                replay.clone(),
            );
        }
    }
    if let Some(t) = o.last_step_s {
        if t > tc {
            rep.violation(&format!("C02|step-after-convergence|{sync_class}"), &format!("step_clock at t={t:.1}s > Tc={tc}s ({} steps in total)", o.n_step), replay.clone());
        }
    }
    if let Some((te, tstep)) = clean_class_deadlines(p) {
        rep.ev("clean_class_run");
        if let Some(t) = o.last_exceed_s {
            if t > te && t <= tc {
                rep.violation(
                    &format!("C02|slow-convergence|offset-outside-bound-after-class-deadline|{sync_class}"),
                    &format!("true offset still exceeded max(1us, jitter)={:.0} ns at t={t:.1}s; start class (offset {:.3}s, sync 2^{}, delay 2^{}) converges within {:.0}s on the calibrated servo (deadline {te:.0}s = 2x worst of 33000 runs)", bound_ns(p), p.offset_s, p.log_sync, p.log_delay, te / 2.0),
                    replay.clone(),
                );
            }
        }
        if let Some(t) = o.last_step_s {
            if t > tstep && t <= tc {
                rep.violation(
                    &format!("C02|slow-convergence|step-after-class-deadline|{sync_class}"),
                    &format!("step_clock at t={t:.1}s ({} steps in total); start class (offset {:.3}s, sync 2^{}, delay 2^{}) stops stepping within {:.0}s on the calibrated servo (deadline {tstep:.0}s = 2x worst of 33000 runs)", o.n_step, p.offset_s, p.log_sync, p.log_delay, tstep / 2.0),
                    replay.clone(),
                );
            }
        }
    }
    rep.distinct_case(&format!("{p:?}"));
}

pub fn run(rep: &mut Report, tier: &str, seed: u64, shard: (u32, u32), replay: Option<&str>) {
    rep.rule = "closed-loop runs: real statime master port (perfect clock) and real slave port with the default Kalman servo over a clock model with initial offset in +-10 s, oscillator error in +-150 ppm, symmetric delay 1-400 us, jitter 0-20 us, sync/delay intervals 2^-3..2^1 s, one-/two-step; corners and random interior points; truth sampled every 100 ms of virtual time; distinct = distinct parameter points; non-trivial = the port became slave and the servo issued commands".into();
    rep.require(&["closed_loop_run", "set_frequency_calls", "step_clock_calls", "clean_class_run", "closed_loop_run_with_second_master_on_segment", "closed_loop_run_boundary_clock_with_p2p_sibling_port", "closed_loop_run_in_a_non_default_domain"]);
    if let Some(path) = replay {
        let v: serde_json::Value = serde_json::from_str(&std::fs::read_to_string(path).unwrap()).unwrap();
        if let Ok(p) = serde_json::from_value::<Params>(v["case"].clone()) {
            let o = simulate(&p, tc_s(&p) + 300.0);
            println!("became_slave={} last_exceed={:?} last_step={:?} max_after_tc={:.0}ns rms={:.0}ns steps={} freq_calls={} max_freq={:.2}", o.became_slave, o.last_exceed_s, o.last_step_s, o.max_abs_after_tc_ns, o.rms_after_tc_ns, o.n_step, o.n_set_freq, o.max_freq);
            let mut h = vec![];
            let mut c = vec![];
            run_case(rep, &p, &mut h, &mut c);
        }
        for f in rep.findings.values() {
            println!("  {}", f.what);
        }
        return;
    }
    let mut rng = StdRng::seed_from_u64(seed ^ 0xc02 ^ ((shard.0 as u64) << 40));
    let n: u64 = if tier == "thorough" { 4000 } else { 250 };
    let budget = Budget::new(n, if tier == "thorough" { 1500.0 } else { 40.0 });
    let mut hist = vec![];
    let mut conv = vec![];
    let mut i = 0;
    while budget.left(i) && budget.time_left() {
        let p = gen_params(&mut rng, i);
        i += 1;
        if i <= 3 {
            rep.sample(serde_json::to_value(&p).unwrap());
        }
        run_case(rep, &p, &mut hist, &mut conv);
    }
    hist.sort_by(|a, b| a.partial_cmp(b).unwrap());
    conv.sort_by(|a, b| a.partial_cmp(b).unwrap());
    let q = |v: &Vec<f64>, f: f64| if v.is_empty() { 0.0 } else { v[((v.len() - 1) as f64 * f) as usize] };
    rep.extra.insert("steady_state_max_offset_over_bound_quantiles".into(), json!({"p50": q(&hist, 0.5), "p90": q(&hist, 0.9), "p99": q(&hist, 0.99), "max": q(&hist, 1.0)}));
    let _ = &conv;
    rep.extra.insert("last_bound_exceedance_s_quantiles".into(), json!({"p50": q(&conv, 0.5), "p90": q(&conv, 0.9), "p99": q(&conv, 0.99), "max": q(&conv, 1.0)}));
}
