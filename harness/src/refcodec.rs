//! Independent reference codec for PTPv2.1 messages, written from IEEE 1588-2019
//! clause 13 (header: table 35; bodies: tables 43-52; flagField: table 37) and
//! clause 14 (TLV framing).  Shares no code with `statime::datastructures`.
//!
//! It encodes arbitrary field values (including values statime's serializer can never
//! produce) and decodes any byte string whose framing is consistent.
//!
//! Byte offsets (whole message):
//!   0      majorSdoId[7:4] | messageType[3:0]
//!   1      minorVersionPTP[7:4] | versionPTP[3:0]
//!   2..4   messageLength (u16 BE)
//!   4      domainNumber
//!   5      minorSdoId
//!   6..8   flagField  (octet 0: b0 alternateMaster, b1 twoStep, b2 unicast,
//!                       b5 profileSpecific1, b6 profileSpecific2;
//!                      octet 1: b0 leap61, b1 leap59, b2 currentUtcOffsetValid,
//!                       b3 ptpTimescale, b4 timeTraceable, b5 frequencyTraceable,
//!                       b6 synchronizationUncertain)
//!   8..16  correctionField (i64 BE, ns * 2^16)
//!   16..20 messageTypeSpecific
//!   20..28 sourcePortIdentity.clockIdentity
//!   28..30 sourcePortIdentity.portNumber
//!   30..32 sequenceId
//!   32     controlField
//!   33     logMessageInterval (i8)

#[derive(Clone, Copy, Debug, PartialEq, Eq, Default, Hash, PartialOrd, Ord)]
pub struct Pid {
    pub clock: [u8; 8],
    pub port: u16,
}

#[derive(Clone, Copy, Debug, PartialEq, Eq, Default, Hash)]
pub struct Ts {
    /// 48-bit seconds
    pub secs: u64,
    pub nanos: u32,
}

impl Ts {
    pub fn enc(&self, out: &mut Vec<u8>) {
        out.extend_from_slice(&self.secs.to_be_bytes()[2..8]);
        out.extend_from_slice(&self.nanos.to_be_bytes());
    }
    pub fn dec(b: &[u8]) -> Ts {
        let mut s = [0u8; 8];
        s[2..8].copy_from_slice(&b[0..6]);
        Ts {
            secs: u64::from_be_bytes(s),
            nanos: u32::from_be_bytes([b[6], b[7], b[8], b[9]]),
        }
    }
    /// Value in units of 2^-32 ns (exact)
    pub fn to_units(&self) -> u128 {
        ((self.secs as u128) * 1_000_000_000u128 + self.nanos as u128) << 32
    }
}

impl Pid {
    pub fn enc(&self, out: &mut Vec<u8>) {
        out.extend_from_slice(&self.clock);
        out.extend_from_slice(&self.port.to_be_bytes());
    }
    pub fn dec(b: &[u8]) -> Pid {
        let mut c = [0u8; 8];
        c.copy_from_slice(&b[0..8]);
        Pid { clock: c, port: u16::from_be_bytes([b[8], b[9]]) }
    }
}

pub const T_SYNC: u8 = 0x0;
pub const T_DELAY_REQ: u8 = 0x1;
pub const T_PDELAY_REQ: u8 = 0x2;
pub const T_PDELAY_RESP: u8 = 0x3;
pub const T_FOLLOW_UP: u8 = 0x8;
pub const T_DELAY_RESP: u8 = 0x9;
pub const T_PDELAY_RESP_FU: u8 = 0xa;
pub const T_ANNOUNCE: u8 = 0xb;
pub const T_SIGNALING: u8 = 0xc;
pub const T_MANAGEMENT: u8 = 0xd;

pub const ALL_TYPES: [u8; 10] = [
    T_SYNC, T_DELAY_REQ, T_PDELAY_REQ, T_PDELAY_RESP, T_FOLLOW_UP, T_DELAY_RESP, T_PDELAY_RESP_FU,
    T_ANNOUNCE, T_SIGNALING, T_MANAGEMENT,
];

pub fn type_name(t: u8) -> &'static str {
    match t {
        T_SYNC => "Sync",
        T_DELAY_REQ => "DelayReq",
        T_PDELAY_REQ => "PDelayReq",
        T_PDELAY_RESP => "PDelayResp",
        T_FOLLOW_UP => "FollowUp",
        T_DELAY_RESP => "DelayResp",
        T_PDELAY_RESP_FU => "PDelayRespFollowUp",
        T_ANNOUNCE => "Announce",
        T_SIGNALING => "Signaling",
        T_MANAGEMENT => "Management",
        _ => "Unknown",
    }
}

// flag bits as (octet, bit)
pub const F_ALT_MASTER: (usize, u8) = (0, 0);
pub const F_TWO_STEP: (usize, u8) = (0, 1);
pub const F_UNICAST: (usize, u8) = (0, 2);
pub const F_PROFILE1: (usize, u8) = (0, 5);
pub const F_PROFILE2: (usize, u8) = (0, 6);
pub const F_LEAP61: (usize, u8) = (1, 0);
pub const F_LEAP59: (usize, u8) = (1, 1);
pub const F_UTC_VALID: (usize, u8) = (1, 2);
pub const F_PTP_TIMESCALE: (usize, u8) = (1, 3);
pub const F_TIME_TRACEABLE: (usize, u8) = (1, 4);
pub const F_FREQ_TRACEABLE: (usize, u8) = (1, 5);
pub const F_SYNC_UNCERTAIN: (usize, u8) = (1, 6);

/// mask of the flag bits IEEE 1588-2019 defines (everything else is reserved)
pub const DEFINED_FLAGS: [u8; 2] = [0b0110_0111, 0b0111_1111];

#[derive(Clone, Debug, PartialEq, Eq)]
pub struct Hdr {
    pub major_sdo: u8, // 4 bits
    pub msg_type: u8,  // 4 bits
    pub minor_version: u8, // 4 bits
    pub version: u8,   // 4 bits
    /// messageLength as on the wire (encode: None = computed)
    pub length: Option<u16>,
    pub domain: u8,
    pub minor_sdo: u8,
    pub flags: [u8; 2],
    pub correction: i64,
    pub type_specific: [u8; 4],
    pub src: Pid,
    pub seq: u16,
    /// controlField (encode: None = value table 42 prescribes for the type)
    pub control: Option<u8>,
    pub log_interval: i8,
}

impl Hdr {
    pub fn new(msg_type: u8) -> Hdr {
        Hdr {
            major_sdo: 0,
            msg_type,
            minor_version: 1,
            version: 2,
            length: None,
            domain: 0,
            minor_sdo: 0,
            flags: [0, 0],
            correction: 0,
            type_specific: [0; 4],
            src: Pid::default(),
            seq: 0,
            control: None,
            log_interval: 0,
        }
    }
    pub fn flag(&self, f: (usize, u8)) -> bool {
        self.flags[f.0] & (1 << f.1) != 0
    }
    pub fn set_flag(&mut self, f: (usize, u8), v: bool) {
        if v {
            self.flags[f.0] |= 1 << f.1;
        } else {
            self.flags[f.0] &= !(1 << f.1);
        }
    }
    pub fn sdo_id(&self) -> u16 {
        ((self.major_sdo as u16) << 8) | self.minor_sdo as u16
    }
}

/// controlField per table 42 (deprecated field, fixed by message type)
pub fn control_for(t: u8) -> u8 {
    match t {
        T_SYNC => 0,
        T_DELAY_REQ => 1,
        T_FOLLOW_UP => 2,
        T_DELAY_RESP => 3,
        T_MANAGEMENT => 4,
        _ => 5,
    }
}

#[derive(Clone, Debug, PartialEq, Eq)]
pub struct AnnounceBody {
    pub origin: Ts,
    pub utc_offset: i16,
    pub reserved: u8,
    pub gm_priority1: u8,
    pub gm_class: u8,
    pub gm_accuracy: u8,
    pub gm_variance: u16,
    pub gm_priority2: u8,
    pub gm_identity: [u8; 8],
    pub steps_removed: u16,
    pub time_source: u8,
}

impl Default for AnnounceBody {
    fn default() -> Self {
        AnnounceBody {
            origin: Ts::default(),
            utc_offset: 37,
            reserved: 0,
            gm_priority1: 128,
            gm_class: 248,
            gm_accuracy: 0xfe,
            gm_variance: 0xffff,
            gm_priority2: 128,
            gm_identity: [0; 8],
            steps_removed: 0,
            time_source: 0xa0,
        }
    }
}

#[derive(Clone, Debug, PartialEq, Eq)]
pub enum Body {
    Sync { origin: Ts },
    DelayReq { origin: Ts },
    PdelayReq { origin: Ts, reserved: [u8; 10] },
    PdelayResp { request_receipt: Ts, requesting: Pid },
    FollowUp { precise_origin: Ts },
    DelayResp { receive: Ts, requesting: Pid },
    PdelayRespFu { response_origin: Ts, requesting: Pid },
    Announce(AnnounceBody),
    Signaling { target: Pid },
    Management { target: Pid, starting_hops: u8, hops: u8, action: u8, reserved: u8 },
    /// a body that is just bytes (used for unknown message types and deliberately short bodies)
    Raw(Vec<u8>),
}

impl Body {
    pub fn len_for_type(t: u8) -> Option<usize> {
        Some(match t {
            T_SYNC | T_DELAY_REQ | T_FOLLOW_UP => 10,
            T_PDELAY_REQ | T_PDELAY_RESP | T_DELAY_RESP | T_PDELAY_RESP_FU => 20,
            T_ANNOUNCE => 30,
            T_SIGNALING => 10,
            T_MANAGEMENT => 14,
            _ => return None,
        })
    }
    pub fn enc(&self, out: &mut Vec<u8>) {
        match self {
            Body::Sync { origin } | Body::DelayReq { origin } => origin.enc(out),
            Body::PdelayReq { origin, reserved } => {
                origin.enc(out);
                out.extend_from_slice(reserved);
            }
            Body::PdelayResp { request_receipt, requesting } => {
                request_receipt.enc(out);
                requesting.enc(out);
            }
            Body::FollowUp { precise_origin } => precise_origin.enc(out),
            Body::DelayResp { receive, requesting } => {
                receive.enc(out);
                requesting.enc(out);
            }
            Body::PdelayRespFu { response_origin, requesting } => {
                response_origin.enc(out);
                requesting.enc(out);
            }
            Body::Announce(a) => {
                a.origin.enc(out);
                out.extend_from_slice(&a.utc_offset.to_be_bytes());
                out.push(a.reserved);
                out.push(a.gm_priority1);
                out.push(a.gm_class);
                out.push(a.gm_accuracy);
                out.extend_from_slice(&a.gm_variance.to_be_bytes());
                out.push(a.gm_priority2);
                out.extend_from_slice(&a.gm_identity);
                out.extend_from_slice(&a.steps_removed.to_be_bytes());
                out.push(a.time_source);
            }
            Body::Signaling { target } => target.enc(out),
            Body::Management { target, starting_hops, hops, action, reserved } => {
                target.enc(out);
                out.push(*starting_hops);
                out.push(*hops);
                out.push(*action);
                out.push(*reserved);
            }
            Body::Raw(v) => out.extend_from_slice(v),
        }
    }
    pub fn dec(t: u8, b: &[u8]) -> Option<(Body, usize)> {
        let n = Body::len_for_type(t)?;
        if b.len() < n {
            return None;
        }
        let body = match t {
            T_SYNC => Body::Sync { origin: Ts::dec(b) },
            T_DELAY_REQ => Body::DelayReq { origin: Ts::dec(b) },
            T_PDELAY_REQ => {
                let mut r = [0u8; 10];
                r.copy_from_slice(&b[10..20]);
                Body::PdelayReq { origin: Ts::dec(b), reserved: r }
            }
            T_PDELAY_RESP => Body::PdelayResp { request_receipt: Ts::dec(b), requesting: Pid::dec(&b[10..]) },
            T_FOLLOW_UP => Body::FollowUp { precise_origin: Ts::dec(b) },
            T_DELAY_RESP => Body::DelayResp { receive: Ts::dec(b), requesting: Pid::dec(&b[10..]) },
            T_PDELAY_RESP_FU => Body::PdelayRespFu { response_origin: Ts::dec(b), requesting: Pid::dec(&b[10..]) },
            T_ANNOUNCE => {
                let mut gm = [0u8; 8];
                gm.copy_from_slice(&b[19..27]);
                Body::Announce(AnnounceBody {
                    origin: Ts::dec(b),
                    utc_offset: i16::from_be_bytes([b[10], b[11]]),
                    reserved: b[12],
                    gm_priority1: b[13],
                    gm_class: b[14],
                    gm_accuracy: b[15],
                    gm_variance: u16::from_be_bytes([b[16], b[17]]),
                    gm_priority2: b[18],
                    gm_identity: gm,
                    steps_removed: u16::from_be_bytes([b[27], b[28]]),
                    time_source: b[29],
                })
            }
            T_SIGNALING => Body::Signaling { target: Pid::dec(b) },
            T_MANAGEMENT => Body::Management {
                target: Pid::dec(b),
                starting_hops: b[10],
                hops: b[11],
                action: b[12],
                reserved: b[13],
            },
            _ => return None,
        };
        Some((body, n))
    }
}

#[derive(Clone, Debug, PartialEq, Eq, Hash)]
pub struct Tlv {
    pub ty: u16,
    pub value: Vec<u8>,
    /// lengthField override (None = value.len())
    pub len_override: Option<u16>,
}

impl Tlv {
    pub fn new(ty: u16, value: Vec<u8>) -> Tlv {
        Tlv { ty, value, len_override: None }
    }
    pub fn wire_size(&self) -> usize {
        4 + self.value.len()
    }
    pub fn enc(&self, out: &mut Vec<u8>) {
        out.extend_from_slice(&self.ty.to_be_bytes());
        let l = self.len_override.unwrap_or(self.value.len() as u16);
        out.extend_from_slice(&l.to_be_bytes());
        out.extend_from_slice(&self.value);
    }
}

/// tlvType classes of table 52; propagate = must be forwarded by boundary clocks on Announce
pub fn tlv_propagates(ty: u16) -> bool {
    matches!(ty, 0x0008 | 0x0009 | 0x4000..=0x7fff)
}
pub const TLV_PATH_TRACE: u16 = 0x0008;
pub const TLV_ALT_TIME_OFFSET: u16 = 0x0009;
pub const TLV_ORG_EXT: u16 = 0x0003;
pub const TLV_ORG_EXT_PROP: u16 = 0x4000;
pub const TLV_ORG_EXT_NOPROP: u16 = 0x8000;
pub const TLV_PAD: u16 = 0x8008;

#[derive(Clone, Debug, PartialEq, Eq)]
pub struct Msg {
    pub hdr: Hdr,
    pub body: Body,
    pub tlvs: Vec<Tlv>,
    /// bytes after the last TLV but inside messageLength
    pub trailing: Vec<u8>,
}

impl Msg {
    pub fn new(t: u8, body: Body) -> Msg {
        Msg { hdr: Hdr::new(t), body, tlvs: vec![], trailing: vec![] }
    }

    /// encode; messageLength is computed unless overridden in the header
    pub fn encode(&self) -> Vec<u8> {
        let mut content = Vec::with_capacity(64);
        self.body.enc(&mut content);
        for t in &self.tlvs {
            t.enc(&mut content);
        }
        content.extend_from_slice(&self.trailing);
        let len = self.hdr.length.unwrap_or((34 + content.len()).min(65535) as u16);
        let h = &self.hdr;
        let mut out = Vec::with_capacity(34 + content.len());
        out.push(((h.major_sdo & 0x0f) << 4) | (h.msg_type & 0x0f));
        out.push(((h.minor_version & 0x0f) << 4) | (h.version & 0x0f));
        out.extend_from_slice(&len.to_be_bytes());
        out.push(h.domain);
        out.push(h.minor_sdo);
        out.extend_from_slice(&h.flags);
        out.extend_from_slice(&h.correction.to_be_bytes());
        out.extend_from_slice(&h.type_specific);
        h.src.enc(&mut out);
        out.extend_from_slice(&h.seq.to_be_bytes());
        out.push(h.control.unwrap_or(control_for(h.msg_type)));
        out.push(h.log_interval as u8);
        debug_assert_eq!(out.len(), 34);
        out.extend_from_slice(&content);
        out
    }

    /// Decode. Only the first messageLength bytes are looked at. Fails if the framing is
    /// inconsistent (short buffer, body does not fit, TLV overruns). Unlike statime this
    /// accepts odd TLV lengths and trailing bytes (reported in `trailing`) so that the
    /// caller can decide what they mean.
    pub fn decode(b: &[u8]) -> Result<Msg, String> {
        if b.len() < 34 {
            return Err("short header".into());
        }
        let len = u16::from_be_bytes([b[2], b[3]]) as usize;
        if len < 34 {
            return Err("messageLength < 34".into());
        }
        if len > b.len() {
            return Err("messageLength > buffer".into());
        }
        let mut ci = [0u8; 8];
        ci.copy_from_slice(&b[20..28]);
        let hdr = Hdr {
            major_sdo: b[0] >> 4,
            msg_type: b[0] & 0x0f,
            minor_version: b[1] >> 4,
            version: b[1] & 0x0f,
            length: Some(len as u16),
            domain: b[4],
            minor_sdo: b[5],
            flags: [b[6], b[7]],
            correction: i64::from_be_bytes([b[8], b[9], b[10], b[11], b[12], b[13], b[14], b[15]]),
            type_specific: [b[16], b[17], b[18], b[19]],
            src: Pid { clock: ci, port: u16::from_be_bytes([b[28], b[29]]) },
            seq: u16::from_be_bytes([b[30], b[31]]),
            control: Some(b[32]),
            log_interval: b[33] as i8,
        };
        let content = &b[34..len];
        let (body, used) = Body::dec(hdr.msg_type, content).ok_or_else(|| "body does not fit / unknown type".to_string())?;
        let mut rest = &content[used..];
        let mut tlvs = vec![];
        while rest.len() >= 4 {
            let ty = u16::from_be_bytes([rest[0], rest[1]]);
            let l = u16::from_be_bytes([rest[2], rest[3]]) as usize;
            if rest.len() < 4 + l {
                return Err("TLV overruns message".into());
            }
            tlvs.push(Tlv { ty, value: rest[4..4 + l].to_vec(), len_override: None });
            rest = &rest[4 + l..];
        }
        Ok(Msg { hdr, body, tlvs, trailing: rest.to_vec() })
    }
}

// ------------------------------------------------------------------------------------------
// convenience constructors used by the protocol-level workloads

#[derive(Clone, Debug)]
pub struct Src {
    pub pid: Pid,
    pub domain: u8,
    pub sdo: u16,
    pub minor_version: u8,
}

impl Src {
    pub fn new(clock: [u8; 8], port: u16) -> Src {
        Src { pid: Pid { clock, port }, domain: 0, sdo: 0, minor_version: 1 }
    }
    pub fn hdr(&self, t: u8, seq: u16) -> Hdr {
        let mut h = Hdr::new(t);
        h.src = self.pid;
        h.domain = self.domain;
        h.major_sdo = (self.sdo >> 8) as u8 & 0xf;
        h.minor_sdo = self.sdo as u8;
        h.minor_version = self.minor_version;
        h.seq = seq;
        h
    }
    pub fn announce(&self, seq: u16, a: AnnounceBody) -> Msg {
        let mut h = self.hdr(T_ANNOUNCE, seq);
        h.log_interval = 1;
        Msg { hdr: h, body: Body::Announce(a), tlvs: vec![], trailing: vec![] }
    }
    pub fn sync(&self, seq: u16, two_step: bool, origin: Ts, correction: i64) -> Msg {
        let mut h = self.hdr(T_SYNC, seq);
        h.set_flag(F_TWO_STEP, two_step);
        h.correction = correction;
        Msg { hdr: h, body: Body::Sync { origin }, tlvs: vec![], trailing: vec![] }
    }
    pub fn follow_up(&self, seq: u16, precise: Ts, correction: i64) -> Msg {
        let mut h = self.hdr(T_FOLLOW_UP, seq);
        h.correction = correction;
        Msg { hdr: h, body: Body::FollowUp { precise_origin: precise }, tlvs: vec![], trailing: vec![] }
    }
    pub fn delay_req(&self, seq: u16, correction: i64) -> Msg {
        let mut h = self.hdr(T_DELAY_REQ, seq);
        h.correction = correction;
        h.log_interval = 0x7f;
        Msg { hdr: h, body: Body::DelayReq { origin: Ts::default() }, tlvs: vec![], trailing: vec![] }
    }
    pub fn delay_resp(&self, seq: u16, receive: Ts, requesting: Pid, correction: i64) -> Msg {
        let mut h = self.hdr(T_DELAY_RESP, seq);
        h.correction = correction;
        Msg { hdr: h, body: Body::DelayResp { receive, requesting }, tlvs: vec![], trailing: vec![] }
    }
    pub fn pdelay_req(&self, seq: u16, correction: i64) -> Msg {
        let mut h = self.hdr(T_PDELAY_REQ, seq);
        h.correction = correction;
        Msg { hdr: h, body: Body::PdelayReq { origin: Ts::default(), reserved: [0; 10] }, tlvs: vec![], trailing: vec![] }
    }
    pub fn pdelay_resp(&self, seq: u16, two_step: bool, request_receipt: Ts, requesting: Pid, correction: i64) -> Msg {
        let mut h = self.hdr(T_PDELAY_RESP, seq);
        h.set_flag(F_TWO_STEP, two_step);
        h.correction = correction;
        Msg { hdr: h, body: Body::PdelayResp { request_receipt, requesting }, tlvs: vec![], trailing: vec![] }
    }
    pub fn pdelay_resp_fu(&self, seq: u16, response_origin: Ts, requesting: Pid, correction: i64) -> Msg {
        let mut h = self.hdr(T_PDELAY_RESP_FU, seq);
        h.correction = correction;
        Msg { hdr: h, body: Body::PdelayRespFu { response_origin, requesting }, tlvs: vec![], trailing: vec![] }
    }
}

/// Wire vectors copied from the repository's own `*_wireformat` unit tests (several are real
/// captures). `selftest` pins this codec against them so a disagreement with statime can be
/// triaged against known-good bytes.
pub fn selftest() -> Result<usize, String> {
    let mut n = 0;
    // announce body from statime/src/datastructures/messages/announce.rs test
    let body: [u8; 30] = [
        0x00, 0x00, 0x45, 0xb1, 0x11, 0x5a, 0x0a, 0x73, 0x46, 0x60, 0x00, 0x00, 0x00, 0x60, 0x00, 0x00, 0x00,
        0x80, 0x63, 0xff, 0xff, 0x00, 0x09, 0xba, 0xf8, 0x21, 0x00, 0x00, 0x80, 0x80,
    ];
    let (b, used) = Body::dec(T_ANNOUNCE, &body).ok_or("announce vector")?;
    if used != 30 {
        return Err("announce len".into());
    }
    match &b {
        Body::Announce(a) => {
            if a.origin != (Ts { secs: 1169232218, nanos: 175326816 })
                || a.utc_offset != 0
                || a.gm_priority1 != 96
                || a.gm_class != 0
                || a.gm_accuracy != 0
                || a.gm_variance != 128
                || a.gm_priority2 != 99
                || a.gm_identity != [0xff, 0xff, 0x00, 0x09, 0xba, 0xf8, 0x21, 0x00]
                || a.steps_removed != 128
                || a.time_source != 0x80
            {
                return Err(format!("announce vector mismatch {a:?}"));
            }
        }
        _ => return Err("announce kind".into()),
    }
    let mut out = vec![];
    b.enc(&mut out);
    if out != body {
        return Err("announce re-encode".into());
    }
    n += 1;
    // header vector from statime/src/datastructures/messages/header.rs test (header_wireformat)
    let hv: [u8; 34] = [
        0x59, 0xa1, 0x12, 0x34, 0xaa, 0xbb, 0b0100_0101, 0b0010_1010, 0x00, 0x00, 0x00, 0x00, 0x00, 0x01,
        0x80, 0x00, 0x00, 0x00, 0x00, 0x00, 0x00, 0x01, 0x02, 0x03, 0x04, 0x05, 0x06, 0x07, 0x55, 0x55, 0xde,
        0xad, 0x03, 0x16,
    ];
    // decode the header part by hand via Msg::decode on an extended buffer with consistent length
    let mut buf = hv.to_vec();
    buf[2] = 0;
    buf[3] = 54; // 34 + 20 body for DelayResp (type 9)
    buf.extend_from_slice(&[0u8; 20]);
    let m = Msg::decode(&buf)?;
    let h = &m.hdr;
    if h.major_sdo != 5 || h.msg_type != 9 || h.minor_version != 0xa || h.version != 1 || h.domain != 0xaa
        || h.minor_sdo != 0xbb || h.correction != 0x18000 || h.src.clock != [0, 1, 2, 3, 4, 5, 6, 7]
        || h.src.port != 0x5555 || h.seq != 0xdead || h.control != Some(3) || h.log_interval != 0x16
        || !h.flag(F_ALT_MASTER) || h.flag(F_TWO_STEP) || !h.flag(F_UNICAST) || !h.flag(F_PROFILE2)
        || h.flag(F_LEAP61) || !h.flag(F_LEAP59) || !h.flag(F_PTP_TIMESCALE) || !h.flag(F_FREQ_TRACEABLE)
    {
        return Err(format!("header vector mismatch {h:?}"));
    }
    if m.encode() != buf {
        return Err("header re-encode".into());
    }
    n += 1;
    // timestamp vectors from common/timestamp.rs
    let t = Ts::dec(&[0x00, 0x00, 0x45, 0xb1, 0x11, 0x5a, 0x0a, 0x73, 0x46, 0x60]);
    if t != (Ts { secs: 1169232218, nanos: 175326816 }) {
        return Err("ts vector".into());
    }
    let t = Ts::dec(&[0x00, 0x00, 0x00, 0x00, 0x00, 0x01, 0x00, 0x00, 0x00, 0x01]);
    if t != (Ts { secs: 1, nanos: 1 }) {
        return Err("ts vector 2".into());
    }
    n += 2;
    // port identity vector
    let p = Pid::dec(&[0x40, 0x6d, 0x16, 0x36, 0xc4, 0x24, 0x0e, 0x38, 0x04, 0xd2]);
    if p != (Pid { clock: [64, 109, 22, 54, 196, 36, 14, 56], port: 1234 }) {
        return Err("pid vector".into());
    }
    n += 1;
    Ok(n)
}
