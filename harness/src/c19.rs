//! C19 - observability data reaches the metrics endpoint unaltered.
//! Oracle: the real exporter binary as a subprocess, fed from a harness-served observation socket;
//! an independent HTTP/exposition parser; a table metric -> (state field, unit, encoding) derived
//! from the metrics' own HELP/UNIT texts and name suffixes.

use std::time::Duration;

use rand::rngs::StdRng;
use rand::{Rng, SeedableRng};
use serde_json::json;
use statime::config::{LeapIndicator, TimePropertiesDS, TimeSource};
use statime::filters::FilterEstimate;
use statime::observability::port::{DelayMechanism, PortDS, PortState};
use statime_linux::metrics::exporter::{ObservableState, ProgramData};
use statime_linux::observer::ObservableInstanceState;

use crate::refcodec::{Msg, Pid, Src, Ts, T_PDELAY_REQ};
use crate::drive::*;
use crate::exporter::*;
use crate::node::*;
use crate::report::*;

fn cid_str(c: &[u8; 8]) -> String {
    c.iter().map(|b| format!("{b:02x}")).collect::<Vec<_>>().join(":")
}

/// expected samples: (metric name, required labels, value)
fn expectations(st: &ObservableState) -> Vec<(String, Vec<(String, String)>, f64)> {
    let i = &st.instance;
    let base = vec![("clock_identity".to_string(), cid_str(&i.default_ds.clock_identity.0))];
    let mut e: Vec<(String, Vec<(String, String)>, f64)> = vec![];
    let b = |v: bool| if v { 1.0 } else { 0.0 };
    e.push(("statime_uptime_seconds".into(), vec![("version".into(), st.program.version.clone()), ("build_commit".into(), st.program.build_commit.clone()), ("build_commit_date".into(), st.program.build_commit_date.clone())], serde_json::to_value(&st.program).ok().and_then(|v| v["uptime_seconds"].as_f64()).unwrap_or(f64::NAN)));
    e.push(("statime_number_ports".into(), base.clone(), i.default_ds.number_ports as f64));
    e.push(("statime_quality_class".into(), base.clone(), i.default_ds.clock_quality.clock_class as f64));
    e.push(("statime_quality_accuracy".into(), base.clone(), i.default_ds.clock_quality.clock_accuracy.to_primitive() as f64));
    e.push(("statime_quality_offset_scaled_log_variance".into(), base.clone(), i.default_ds.clock_quality.offset_scaled_log_variance as f64));
    e.push(("statime_priority_1".into(), base.clone(), i.default_ds.priority_1 as f64));
    e.push(("statime_priority_2".into(), base.clone(), i.default_ds.priority_2 as f64));
    e.push(("statime_steps_removed".into(), base.clone(), i.current_ds.steps_removed as f64));
    // name suffix and "# UNIT" say nanoseconds
    e.push(("statime_offset_from_master_nanoseconds".into(), base.clone(), units_to_ns_f64(dur_units(i.current_ds.offset_from_master))));
    e.push(("statime_mean_delay_nanoseconds".into(), base.clone(), units_to_ns_f64(dur_units(i.current_ds.mean_delay))));
    let mut pl = base.clone();
    pl.push(("parent_clock_identity".into(), cid_str(&i.parent_ds.parent_port_identity.clock_identity.0)));
    pl.push(("parent_port_number".into(), i.parent_ds.parent_port_identity.port_number.to_string()));
    e.push(("statime_grandmaster_clock_quality_class".into(), pl.clone(), i.parent_ds.grandmaster_clock_quality.clock_class as f64));
    e.push(("statime_grandmaster_clock_quality_accuracy".into(), pl.clone(), i.parent_ds.grandmaster_clock_quality.clock_accuracy.to_primitive() as f64));
    e.push(("statime_grandmaster_clock_quality_offset_scaled_log_variance".into(), pl.clone(), i.parent_ds.grandmaster_clock_quality.offset_scaled_log_variance as f64));
    e.push(("statime_grandmaster_priority_1".into(), pl.clone(), i.parent_ds.grandmaster_priority_1 as f64));
    e.push(("statime_grandmaster_priority_2".into(), pl.clone(), i.parent_ds.grandmaster_priority_2 as f64));
    let tp = &i.time_properties_ds;
    if let Some(u) = tp.current_utc_offset {
        e.push(("statime_current_utc_offset_seconds".into(), base.clone(), u as f64));
    }
    e.push((
        "statime_upcoming_leap_seconds".into(),
        base.clone(),
        match tp.leap_indicator {
            LeapIndicator::NoLeap => 60.0,
            LeapIndicator::Leap61 => 61.0,
            LeapIndicator::Leap59 => 59.0,
        },
    ));
    e.push(("statime_time_traceable".into(), base.clone(), b(tp.time_traceable)));
    e.push(("statime_frequency_traceable".into(), base.clone(), b(tp.frequency_traceable)));
    e.push(("statime_ptp_timescale".into(), base.clone(), b(tp.ptp_timescale)));
    e.push(("statime_time_source".into(), base.clone(), tp.time_source.to_primitive() as f64));
    e.push(("statime_path_trace_enable".into(), base.clone(), b(i.path_trace_ds.enable)));
    for (k, c) in i.path_trace_ds.list.iter().enumerate() {
        let mut l = base.clone();
        l.push(("node".into(), cid_str(&c.0)));
        e.push(("statime_path_trace_list".into(), l, k as f64));
    }
    let mut l = base.clone();
    l.push(("node".into(), "self".into()));
    e.push(("statime_path_trace_list".into(), l, i.path_trace_ds.list.len() as f64));
    for p in &i.port_ds {
        let mut l = base.clone();
        l.push(("port".into(), p.port_identity.port_number.to_string()));
        // IEEE 1588 portState enumeration
        let code = match p.port_state {
            PortState::Initializing => 1.0,
            PortState::Faulty => 2.0,
            PortState::Disabled => 3.0,
            PortState::Listening => 4.0,
            PortState::PreMaster => 5.0,
            PortState::Master => 6.0,
            PortState::Passive => 7.0,
            PortState::Uncalibrated => 8.0,
            PortState::Slave => 9.0,
        };
        e.push(("statime_port_state".into(), l.clone(), code));
        if let DelayMechanism::P2P { mean_link_delay, .. } = p.delay_mechanism {
            e.push(("statime_mean_link_delay_nanoseconds".into(), l, mean_link_delay.0.to_bits() as f64 / 65536.0));
        }
    }
    e
}

fn close(a: f64, b: f64) -> bool {
    if a == b {
        return true;
    }
    let d = (a - b).abs();
    d <= 1e-9 * a.abs().max(b.abs()) || d < 1e-12
}

pub struct Ctx {
    pub exp: Exporter,
    pub obs: ObsServer,
}

pub fn start_ctx(tag: &str) -> Result<Ctx, String> {
    let dir = scratch_dir(tag);
    let sock = dir.join("obs.sock");
    let obs = ObsServer::start(sock.clone(), ObsMode::AcceptThenClose);
    std::thread::sleep(Duration::from_millis(30));
    let exp = Exporter::start(&dir, &sock)?;
    Ok(Ctx { exp, obs })
}

/// A scrape whose client sends a complete request and then resets its connection while the exporter
/// is still waiting for the daemon: the exporter's write fails. What it leaves behind must not leak
/// into the next (fully judged) scrape.
pub fn aborted_scrape(rep: &mut Report, ctx: &mut Ctx, st: &ObservableState) {
    use std::io::Write;
    let Ok(bytes) = serde_json::to_vec(st) else { return };
    ctx.obs.set(ObsMode::DelayedValid(bytes, 120));
    if let Ok(mut s) = std::net::TcpStream::connect_timeout(&format!("127.0.0.1:{}", ctx.exp.port).parse().unwrap(), Duration::from_millis(500)) {
        let _ = s.write_all(b"GET /metrics HTTP/1.1\r\nHost: localhost\r\n\r\n");
        std::thread::sleep(Duration::from_millis(40));
        let sock = socket2::Socket::from(s);
        let _ = sock.set_linger(Some(Duration::from_secs(0)));
        drop(sock);
        rep.ev("aborted_scrape");
    }
    // let the exporter get its answer from the (slow) daemon and fail to deliver it
    std::thread::sleep(Duration::from_millis(200));
}

/// "the data sets exposed for observation equal the live data sets": the mean link delay of a P2P
/// port is live state of the port (it keeps correcting Syncs with it) and survives the port's role
/// changes; what `port_ds()` (and with it the observation JSON and the exporter) shows must be the
/// delay last measured, also right after the port left the slave state.
fn p2p_link_delay_persistence(rep: &mut Report, seed: u64) {
    use statime::observability::port::{DelayMechanism as ObsDm, PortState};
    let replay = json!({"p2p_link_delay_seed": seed});
    let mut rng = StdRng::seed_from_u64(seed);
    let mut b = Build::new(5);
    b.p2p = true;
    b.seed = seed;
    b.rec_reply = ReplyMode::EchoDelay;
    let Ok(built) = b.build() else { return };
    let mut node = built.node;
    let mut remote = Remote::new(7, 1);
    let (oc, op) = node.port_identity_bytes(0);
    let own = Pid { clock: oc, port: op };
    let responder = Src::new(clock_id(20).0, 1);
    let clock = node.clock.clone();
    let mut t = 3_000 * SEC;
    let link_ns: u128 = rng.gen_range(200..2_000_000);
    // one clean single-responder exchange measuring `link_ns`
    let mut exchange = |node: &mut Node, t: &mut u128| -> bool {
        *t += SEC / 4;
        clock.lock().unwrap().set_true(*t);
        let Ok(acts) = node.call(0, Call::DelayRequestTimer) else { return false };
        for a in acts {
            if let Act::SendEvent { ctx: Some(ctx), data, .. } = a {
                let Ok(m) = Msg::decode(&data) else { continue };
                if m.hdr.msg_type != T_PDELAY_REQ {
                    continue;
                }
                let t1 = *t;
                let t2 = t1 + (link_ns << 32);
                let t3 = t2 + (50_000u128 << 32);
                let t4 = t3 + (link_ns << 32);
                if node.call(0, Call::TxTimestamp(ctx, time_from_units(t1))).is_err() {
                    return false;
                }
                let ts = |u: u128| Ts { secs: ((u >> 32) / 1_000_000_000) as u64, nanos: ((u >> 32) % 1_000_000_000) as u32 };
                let r = responder.pdelay_resp(m.hdr.seq, true, ts(t2), own, 0);
                *t = t4;
                clock.lock().unwrap().set_true(*t);
                if node.call(0, Call::EventRx(r.encode(), time_from_units(t4))).is_err() {
                    return false;
                }
                let f = responder.pdelay_resp_fu(m.hdr.seq, ts(t3), own, 0);
                if node.call(0, Call::GeneralRx(f.encode())).is_err() {
                    return false;
                }
            }
        }
        true
    };
    let shown = |node: &Node| -> Option<f64> {
        match node.port_ref(0).port_ds().delay_mechanism {
            ObsDm::P2P { mean_link_delay, .. } => Some(mean_link_delay.to_nanos()),
            _ => None,
        }
    };
    let mut judge = |rep: &mut Report, node: &Node, when: &str| {
        rep.ev("p2p_mean_link_delay_checked");
        match shown(node) {
            Some(v) if (v - link_ns as f64).abs() <= 1.0 => {}
            other => rep.violation(
                "C19|live-state|port_ds.mean_link_delay",
                &format!("{when}: port_ds() shows mean link delay {other:?} ns, the port measured (and keeps using) {link_ns} ns"),
                replay.clone(),
            ),
        }
    };
    if !exchange(&mut node, &mut t) {
        return;
    }
    judge(rep, &node, "after a clean peer delay exchange (listening)");
    if make_slave(&mut node, 0, &mut remote).is_err() || node.port_state(0) != PortState::Slave {
        return;
    }
    judge(rep, &node, "after becoming slave");
    if !exchange(&mut node, &mut t) {
        return;
    }
    judge(rep, &node, "after a peer delay exchange as slave");
    // the parent is lost: master (or listening on a slave-only instance)
    if node.call(0, Call::AnnounceReceiptTimer).is_err() || node.port_state(0) == PortState::Slave {
        return;
    }
    judge(rep, &node, "right after the port left the slave state (announce receipt timeout)");
    let _ = node.bmca();
    judge(rep, &node, "after the following BMCA run");
}

/// currentDS.stepsRemoved is live state of the instance whether or not a port is slave at the
/// moment: between the announce receipt timeout of the slave port and the next BMCA run the master
/// ports still announce the old distance, and that is what the observation has to show.
fn steps_removed_without_slave_port(rep: &mut Report, seed: u64) {
    use statime::observability::port::PortState;
    let replay = json!({"steps_removed_without_slave_seed": seed});
    let mut rng = StdRng::seed_from_u64(seed);
    let mut b = Build::new(5);
    b.n_ports = 2;
    b.seed = seed;
    if rng.gen_bool(0.3) {
        b.slave_only = true;
        b.clock_class = 255;
    }
    let slave_only = b.slave_only;
    let Ok(built) = b.build() else { return };
    let mut node = built.node;
    let mut remote = Remote::new(7, 1);
    remote.body.steps_removed = rng.gen_range(0..200);
    if !slave_only && node.call(1, Call::AnnounceReceiptTimer).is_err() {
        return;
    }
    if make_slave(&mut node, 0, &mut remote).is_err() || node.port_state(0) != PortState::Slave {
        return;
    }
    let live = remote.body.steps_removed + 1;
    let shown = node.inst().current_ds(None).steps_removed;
    rep.ev("steps_removed_observation_checked");
    if shown != live {
        rep.violation("C19|live-state|current_ds.steps_removed", &format!("slave of a parent {} steps away: observation shows stepsRemoved {shown}", live - 1), replay.clone());
    }
    if node.call(0, Call::AnnounceReceiptTimer).is_err() || node.port_state(0) == PortState::Slave {
        return;
    }
    // no BMCA run yet: what do the master ports announce, what does the observation show?
    let mut announced = None;
    for p in 0..2 {
        if node.port_state(p) != PortState::Master {
            continue;
        }
        if let Ok(acts) = node.call(p, Call::AnnounceTimer) {
            for a in acts {
                if let Act::SendGeneral { data, .. } = a {
                    if let Ok(m) = Msg::decode(&data) {
                        if let crate::refcodec::Body::Announce(ab) = &m.body {
                            announced = Some(ab.steps_removed);
                        }
                    }
                }
            }
        }
    }
    let shown = node.inst().current_ds(None).steps_removed;
    rep.ev("steps_removed_observation_checked");
    rep.ev("steps_removed_checked_without_slave_port");
    match announced {
        Some(a) if a != shown => rep.violation(
            "C19|live-state|current_ds.steps_removed",
            &format!("no port is slave (announce receipt timeout, BMCA has not run yet): the master port announces stepsRemoved {a}, the observation shows {shown}"),
            replay.clone(),
        ),
        None if slave_only && shown != live => rep.violation(
            "C19|live-state|current_ds.steps_removed",
            &format!("slave-only instance lost its parent (no BMCA decision since): live stepsRemoved is still {live}, the observation shows {shown}"),
            replay.clone(),
        ),
        _ => {}
    }
}

/// The daemon's own observation server (statime_linux::observer, the task main.rs spawns): a
/// client gets the state that is live when it connects - not the state of an earlier moment.
fn real_observer_serves_live_state(rep: &mut Report, seed: u64) {
    use tokio::io::AsyncReadExt;
    let replay = json!({"real_observer_seed": seed});
    let mut rng = StdRng::seed_from_u64(seed);
    let dir = scratch_dir("c19-observer");
    let sock = dir.join("observe.sock");
    let _ = std::fs::remove_file(&sock);
    let cfg_path = dir.join("statime.toml");
    if std::fs::write(&cfg_path, format!("[[port]]\ninterface = \"lo\"\n\n[observability]\nobservation-path = \"{}\"\n", sock.display())).is_err() {
        return;
    }
    let Ok(config) = statime_linux::config::Config::from_file(&cfg_path) else {
        rep.observe("the daemon's configuration parser rejected the harness' minimal configuration: real observer not exercised");
        return;
    };
    let Ok(built) = Build::new(0x33).build() else { return };
    let node = built.node;
    let base = state_of(&node, None, program(&mut rng)).instance;
    let Ok(rt) = tokio::runtime::Builder::new_multi_thread().worker_threads(2).enable_all().build() else { return };
    let problems: Vec<(String, String)> = rt.block_on(async {
        let mut problems = vec![];
        let (tx, rx) = tokio::sync::watch::channel(base.clone());
        let t_spawn = std::time::Instant::now();
        let _h = statime_linux::observer::spawn(&config, rx).await;
        let mut seen = false;
        for _ in 0..2000 {
            if sock.exists() {
                seen = true;
                break;
            }
            tokio::time::sleep(Duration::from_millis(5)).await;
        }
        if !seen {
            return vec![("inconclusive".to_string(), "observation socket did not appear".to_string())];
        }
        let t_seen = t_spawn.elapsed().as_secs_f64();
        for k in 0..6u16 {
            // the instance state changes (as after a BMCA run), then somebody looks
            let mut st = base.clone();
            st.current_ds.steps_removed = 100 + k;
            st.default_ds.priority_1 = 10 + k as u8;
            if tx.send(st.clone()).is_err() {
                break;
            }
            tokio::time::sleep(Duration::from_millis(rng.gen_range(20..120))).await;
            let t_connect = t_spawn.elapsed().as_secs_f64();
            let Ok(mut s) = tokio::net::UnixStream::connect(&sock).await else {
                problems.push(("inconclusive".into(), "connect failed".into()));
                break;
            };
            let mut buf = vec![];
            if tokio::time::timeout(Duration::from_secs(20), s.read_to_end(&mut buf)).await.is_err() {
                problems.push(("inconclusive".into(), "no answer from the observer within 20 s".into()));
                break;
            }
            let Ok(v) = serde_json::from_slice::<serde_json::Value>(&buf) else {
                problems.push(("C19|observer|not-json".into(), format!("the observation socket served {} octets that are not JSON", buf.len())));
                break;
            };
            let want = serde_json::to_value(&st).unwrap();
            if v["instance"] != want {
                problems.push((
                    "C19|observer|stale-or-altered-state".into(),
                    format!("connection {k}: the state published before connecting has stepsRemoved {} / priority1 {}, the socket served stepsRemoved {} / priority1 {}", 100 + k, 10 + k, v["instance"]["current_ds"]["steps_removed"], v["instance"]["default_ds"]["priority_1"]),
                ));
            }
            // uptime: taken after the connection was accepted, the observer started before the
            // socket showed up
            if let Some(up) = v["program"]["uptime_seconds"].as_f64() {
                if up + 0.001 < t_connect - t_seen {
                    problems.push(("C19|observer|uptime-of-an-earlier-moment".into(), format!("connection {k}: uptime {up:.3} s, but the observer had been running for at least {:.3} s when the client connected", t_connect - t_seen)));
                }
            }
        }
        problems
    });
    drop(rt);
    let _ = std::fs::remove_file(&sock);
    rep.ev("real_observer_connections_checked");
    for (sig, what) in problems {
        if sig == "inconclusive" {
            rep.observe(&format!("real observer scenario: {what}"));
        } else {
            rep.violation(&sig, &what, replay.clone());
        }
    }
}

pub fn check_state(rep: &mut Report, ctx: &mut Ctx, st: &ObservableState, label: &str) {
    let replay = json!({"label": label, "state": serde_json::to_value(st).unwrap_or(json!(null))});
    // (2) the JSON hop
    let bytes = match serde_json::to_vec(st) {
        Ok(b) => b,
        Err(e) => {
            rep.violation("C19|json|serialize-error", &format!("{label}: state does not serialise: {e}"), replay);
            return;
        }
    };
    match serde_json::from_slice::<ObservableState>(&bytes) {
        Ok(back) => {
            let again = serde_json::to_vec(&back).unwrap_or_default();
            rep.ev("json_roundtrip");
            if again != bytes {
                rep.violation("C19|json|roundtrip-differs", &format!("{label}: JSON -> ObservableState -> JSON is not byte-identical"), replay.clone());
            }
        }
        Err(e) => {
            rep.violation("C19|json|deserialize-error", &format!("{label}: the exporter side cannot parse the daemon's JSON: {e}"), replay.clone());
        }
    }
    ctx.obs.set(ObsMode::Valid(bytes.clone()));
    let resp = match http_get(ctx.exp.port, Duration::from_secs(10)) {
        Ok(r) => r,
        Err(e) => {
            if let Some(st) = ctx.exp.exited() {
                rep.violation("C19|http|exporter-exited", &format!("{label}: exporter exited ({st})"), replay.clone());
            } else {
                rep.inconclusive(&format!("no HTTP response from the exporter: {e:?}"));
            }
            return;
        }
    };
    rep.ev("http_response");
    if resp.status != 200 && bytes.len() > 16 * 1024 {
        // more ports than the property's quantifier names: the exporter reads the observation
        // socket with a single 16 KiB read
        rep.observe(&format!("state whose JSON exceeds 16 KiB is answered with status {}", resp.status));
        return;
    }
    if resp.status != 200 {
        let class = "small-json";
        rep.violation(&format!("C19|http|status-{}|{class}", resp.status), &format!("{label}: status {} for a valid state ({} bytes of JSON)", resp.status, bytes.len()), replay.clone());
        return;
    }
    let cl: Option<usize> = resp.headers.iter().find(|h| h.0 == "content-length").and_then(|h| h.1.parse().ok());
    if cl != Some(resp.body.len()) {
        rep.violation("C19|http|content-length", &format!("{label}: Content-Length {cl:?} but body has {} bytes", resp.body.len()), replay.clone());
    }
    let text = match String::from_utf8(resp.body.clone()) {
        Ok(t) => t,
        Err(_) => {
            rep.violation("C19|format|not-utf8", &format!("{label}: body is not UTF-8"), replay.clone());
            return;
        }
    };
    let fams = match parse_exposition(&text) {
        Ok(f) => f,
        Err(e) => {
            rep.violation("C19|format|malformed", &format!("{label}: exposition text malformed: {e}"), replay.clone());
            return;
        }
    };
    rep.ev("exposition_parsed");
    for (name, labels, want) in expectations(st) {
        rep.ev("metric_compared");
        let Some(fam) = fams.get(&name) else {
            rep.violation(&format!("C19|metric-missing|{name}"), &format!("{label}: metric {name} is not served"), replay.clone());
            continue;
        };
        let hit = fam.samples.iter().find(|s| labels.iter().all(|l| s.labels.iter().any(|sl| sl == l)));
        match hit {
            None => {
                rep.violation(&format!("C19|sample-missing|{name}"), &format!("{label}: no sample of {name} with labels {labels:?} (served: {:?})", fam.samples.iter().map(|s| &s.labels).collect::<Vec<_>>()), replay.clone());
            }
            Some(s) => {
                if !close(s.value, want) {
                    rep.violation(
                        &format!("C19|value|{name}"),
                        &format!("{label}: {name} = {} but the state says {want} (HELP: {:?}, UNIT: {:?})", s.raw_value, fam.help, fam.unit),
                        replay.clone(),
                    );
                }
            }
        }
    }
    rep.distinct_case(&format!("{:x}", fnv(&bytes)));
}

fn program(rng: &mut StdRng) -> ProgramData {
    // through the wire format, so that the harness does not depend on how the struct stores it
    let version = ["0.4.0", "1.2.3-rc\"1\"", "v\\x", "0.4.0-\u{e9}t\u{e9}-\u{b5}s"][rng.gen_range(0..4)];
    let uptime = [0.0, 1.5, 86400.25, 1e9][rng.gen_range(0..4)];
    serde_json::from_value(json!({
        "version": version,
        "build_commit": "abc\ndef",
        "build_commit_date": "2026-01-01",
        "uptime_seconds": uptime,
    }))
    .expect("program data")
}

fn state_of(node: &Node, contribution: Option<FilterEstimate>, prog: ProgramData) -> ObservableState {
    let inst = node.inst();
    ObservableState {
        program: prog,
        instance: ObservableInstanceState {
            default_ds: inst.default_ds(),
            current_ds: inst.current_ds(contribution),
            parent_ds: inst.parent_ds(),
            time_properties_ds: inst.time_properties_ds(),
            path_trace_ds: inst.path_trace_ds(),
            port_ds: (0..node.n_ports()).map(|p| node.port_ref(p).port_ds()).collect(),
        },
    }
}

pub fn run(rep: &mut Report, tier: &str, seed: u64, shard: (u32, u32), _replay: Option<&str>) {
    rep.rule = "instance states taken from live simulated instances through the public getters the daemon uses (grandmaster, slave with servo estimates, 1-8-port boundary clocks, P2P ports with measured link delay, Faulty/Passive/Listening ports, path lists 0..128, every time-properties combination) plus synthetic extremes (offsets/delays up to +-10 s and beyond 64 bits of 2^-32 ns, negative values), served to the real exporter over a harness observation socket; the HTTP response is parsed independently and every metric compared; distinct = distinct JSON states".into();
    rep.require(&["aborted_scrape", "real_observer_connections_checked", "state_with_e2e_port_before_p2p_port", "p2p_mean_link_delay_checked", "steps_removed_checked_without_slave_port", "json_roundtrip", "http_response", "exposition_parsed", "metric_compared"]);
    let mut ctx = match start_ctx(&format!("c19-{}", shard.0)) {
        Ok(c) => c,
        Err(e) => {
            rep.inconclusive(&format!("cannot start the exporter: {e}"));
            return;
        }
    };
    let mut rng = StdRng::seed_from_u64(seed ^ 0xc19 ^ ((shard.0 as u64) << 40));
    let n: u64 = if tier == "thorough" { 6000 } else { 150 };
    let budget = Budget::new(n, if tier == "thorough" { 600.0 } else { 30.0 });
    let mut i = 0;
    while budget.left(i) && budget.time_left() {
        i += 1;
        // a live instance
        let n_ports = [1usize, 2, 3, 8][rng.gen_range(0..4)];
        let mut b = Build::new(rng.gen_range(1..250));
        b.n_ports = n_ports;
        b.p2p = rng.gen_bool(0.4);
        if n_ports > 1 && rng.gen_bool(0.4) {
            // mixed delay mechanisms, in every port order
            b.p2p_ports = (0..n_ports).map(|_| rng.gen_bool(0.5)).collect();
            if b.p2p_ports.windows(2).any(|w| !w[0] && w[1]) {
                rep.ev("state_with_e2e_port_before_p2p_port");
            }
        }
        b.path_trace = rng.gen_bool(0.5);
        b.priority1 = rng.gen();
        b.clock_class = [6u8, 128, 248, 255][rng.gen_range(0..4)];
        b.slave_only = b.clock_class == 255;
        b.tp = TimePropertiesDS {
            current_utc_offset: if rng.gen_bool(0.5) { Some([37i16, -1, i16::MIN, i16::MAX][rng.gen_range(0..4)]) } else { None },
            leap_indicator: [LeapIndicator::NoLeap, LeapIndicator::Leap59, LeapIndicator::Leap61][rng.gen_range(0..3)],
            time_traceable: rng.gen(),
            frequency_traceable: rng.gen(),
            ptp_timescale: rng.gen(),
            time_source: [TimeSource::Gnss, TimeSource::AtomicClock, TimeSource::InternalOscillator, TimeSource::Unknown(0x33)][rng.gen_range(0..4)],
        };
        b.filter = Some(FilterCfg::Basic(0.5));
        b.seed = rng.gen();
        b.asymmetry_units = [0i128, 1 << 40, -(1 << 45)][rng.gen_range(0..3)];
        let Ok(built) = b.build() else { continue };
        let mut node = built.node;
        // drive it into some state
        let mut remote = Remote::new(7, 1);
        remote.body.gm_priority1 = rng.gen_range(0..100);
        remote.body.steps_removed = rng.gen_range(0..254);
        remote.flags = [0, rng.gen_range(0..64)];
        remote.body.utc_offset = rng.gen();
        let scenario = rng.gen_range(0..5);
        match scenario {
            0 => {}
            1 => {
                for p in 0..n_ports {
                    let _ = node.call(p, Call::AnnounceReceiptTimer);
                }
            }
            2 | 3 => {
                let mut m = remote.next_announce();
                if scenario == 3 {
                    let k = [0usize, 1, 50, 100, 118][rng.gen_range(0..5)];
                    let mut v = vec![];
                    for j in 0..k {
                        v.extend_from_slice(&[0xab, 0, 0, 0, (j >> 8) as u8, j as u8, 9, 9]);
                    }
                    m.tlvs = vec![crate::refcodec::Tlv::new(crate::refcodec::TLV_PATH_TRACE, v)];
                }
                let _ = node.call(0, Call::GeneralRx(m.encode()));
                let m2 = remote.next_announce();
                let _ = node.call(0, Call::GeneralRx(m2.encode()));
                let _ = node.bmca();
                let mut m3 = remote.next_announce();
                m3.tlvs = m.tlvs.clone();
                let _ = node.call(0, Call::GeneralRx(m3.encode()));
                for p in 1..n_ports {
                    let _ = node.call(p, Call::AnnounceReceiptTimer);
                }
            }
            _ => {
                // P2P fault: two responders
                if b.p2p_ports.first().copied().unwrap_or(b.p2p) {
                    let _ = make_slave(&mut node, 0, &mut remote);
                    let _ = node.call(0, Call::DelayRequestTimer);
                    let (c, pn) = node.port_identity_bytes(0);
                    let own = crate::refcodec::Pid { clock: c, port: pn };
                    for r in [0x21u8, 0x22] {
                        let s = crate::refcodec::Src::new(clock_id(r).0, 1);
                        let m = s.pdelay_resp(0, true, crate::refcodec::Ts { secs: 100, nanos: 0 }, own, 0);
                        let _ = node.call(0, Call::EventRx(m.encode(), time_from_units(1000 * SEC)));
                    }
                }
            }
        }
        if node.dead {
            continue;
        }
        let contribution = (0..n_ports).find_map(|p| node.port_ref(p).port_current_ds_contribution());
        let mut st = state_of(&node, contribution, program(&mut rng));
        for s in &st.instance.port_ds {
            rep.ev(&format!("port_state_{}", state_name(s.port_state)));
        }
        // synthetic extremes on top of the live state
        match rng.gen_range(0..6) {
            0 => {}
            1 => {
                st.instance.current_ds.offset_from_master = dur_from_units([10 * SEC as i128, -(10 * SEC as i128), 1, -1, 250_000_000i128 << 32][rng.gen_range(0..5)]);
                st.instance.current_ds.mean_delay = dur_from_units(rng.gen_range(0..(400_000i128 << 32)));
            }
            2 => {
                // values whose 2^-32 ns bits exceed 64 bits
                st.instance.current_ds.offset_from_master = dur_from_units((1i128 << 66) + 12345);
                st.instance.current_ds.mean_delay = dur_from_units(-(1i128 << 65));
            }
            3 => {
                st.instance.current_ds.offset_from_master = dur_from_units(rng.gen_range(-(1i128 << 60)..(1i128 << 60)));
            }
            4 => {
                for p in st.instance.port_ds.iter_mut() {
                    if let DelayMechanism::P2P { ref mut mean_link_delay, .. } = p.delay_mechanism {
                        mean_link_delay.0 = fixed::types::I48F16::from_bits(rng.gen_range(-(1i64 << 40)..(1i64 << 40)));
                    }
                }
            }
            _ => {
                st.instance.current_ds.steps_removed = rng.gen();
            }
        }
        if i <= 2 {
            rep.sample(json!({"scenario": scenario, "ports": n_ports, "json_bytes": serde_json::to_vec(&st).map(|b| b.len()).unwrap_or(0)}));
        }
        if i % 6 == 1 {
            // the previous scrape was aborted by its client: this one must be unaffected
            aborted_scrape(rep, &mut ctx, &st);
            p2p_link_delay_persistence(rep, rng.gen());
            steps_removed_without_slave_port(rep, rng.gen());
            if i % 30 == 1 {
                real_observer_serves_live_state(rep, rng.gen());
            }
        }
        check_state(rep, &mut ctx, &st, &format!("scenario {scenario}, {n_ports} ports"));
        rep.evaluations += 1;
        if ctx.exp.exited().is_some() {
            match start_ctx(&format!("c19r-{}-{i}", shard.0)) {
                Ok(c) => ctx = c,
                Err(_) => break,
            }
        }
    }
    // one deliberately large state (observation only)
    if shard.0 == 0 {
        let mut b = Build::new(0x33);
        b.n_ports = 80;
        if let Ok(built) = b.build() {
            let st = state_of(&built.node, None, program(&mut rng));
            check_state(rep, &mut ctx, &st, "80 ports");
        }
    }
    let _ = std::fs::remove_dir_all(&ctx.exp.dir);
    let _: Option<PortDS> = None;
}
