//! C06 - foreign masters qualify only by sustained Announces and expire when silent.
//! Oracle: offline checker over the recorded receipt log and per-BMCA snapshots.

use rand::rngs::StdRng;
use rand::{Rng, SeedableRng};
use serde_json::json;
use statime::observability::port::PortState;

use crate::drive::*;
use crate::node::*;
use crate::refcodec::*;
use crate::report::*;

/// time unit: 1/64 announce interval
const TICKS_PER_I: u64 = 64;

#[derive(Clone, Debug, serde::Serialize, serde::Deserialize)]
pub struct MasterScript {
    pub id: u8,
    /// quality: lower priority1 = better
    pub p1: u8,
    /// presence bit per interval (bit k = announce sent in interval k)
    pub pattern: u32,
    /// arrival offset within the interval, in ticks (1..63)
    pub offset: u64,
    pub seq_base: u16,
    /// stepsRemoved announced
    pub steps: u16,
    /// 0 normal, 1 duplicate every frame, 2 swap adjacent pairs (re-ordering), 3 stale sequence ids,
    /// 4 bursts of 3..8 Announces per announcement
    pub mode: u8,
    /// announces bear the instance's own clock identity
    pub own_identity: bool,
    /// ... and a port number below the receiving port's (another port of the same boundary clock on
    /// this segment): the receiving port must not become master, its foreign master bookkeeping
    /// goes on as usual
    #[serde(default)]
    pub lower_port: bool,
    /// from this interval on the master announces `steps_late` instead of `steps` (a known master
    /// that starts reporting stepsRemoved >= 255, or returns from it); 0 = never
    /// port number of the announcing port (0 = 1): two scripts with the same `id` and different
    /// port numbers are two ports of one foreign clock, each with its own record
    #[serde(default)]
    pub port: u16,
    #[serde(default)]
    pub late_from: u32,
    #[serde(default)]
    pub steps_late: u16,
}

#[derive(Clone, Debug, serde::Serialize, serde::Deserialize)]
pub struct Case {
    pub masters: Vec<MasterScript>,
    pub intervals: u32,
    /// BMCA phase within the interval, ticks
    pub bmca_phase: u64,
    pub own_class: u8,
    pub seed: u64,
    /// (from, to) in intervals: a P2P port that is disabled by a peer-delay fault (two responders)
    /// at the start of interval `from` and recovers by a clean exchange at the start of `to`;
    /// Announces keep arriving and foreign-master records keep ageing in between
    #[serde(default)]
    pub faulty: Option<(u32, u32)>,
}

#[derive(Clone, Debug)]
struct Receipt {
    t: u64,
    master: usize,
    qualifying: bool,
}

#[derive(Clone, Debug)]
struct Snap {
    t: u64,
    state: PortState,
    parent: Pid,
}

pub fn run_case(rep: &mut Report, case: &Case, verbose: bool) -> bool {
    let replay = serde_json::to_value(case).unwrap();
    let mut b = Build::new(0x50);
    b.clock_class = case.own_class;
    b.seed = case.seed;
    b.p2p = case.faulty.is_some();
    let Ok(built) = b.build() else { return false };
    let mut node = built.node;
    let own_clock = clock_id(0x50).0;
    // events
    #[derive(Clone)]
    enum Ev {
        Ann { master: usize, seq: u16, steps: u16 },
        Bmca,
        Fault,
        Recover,
    }
    let mut evs: Vec<(u64, u32, Ev)> = vec![];
    let mut order = 0u32;
    for k in 0..case.intervals as u64 {
        evs.push((k * TICKS_PER_I + case.bmca_phase, 1_000_000 + order, Ev::Bmca));
        order += 1;
    }
    if let Some((from, to)) = case.faulty {
        evs.push((from as u64 * TICKS_PER_I, 0, Ev::Fault));
        evs.push((to as u64 * TICKS_PER_I, 0, Ev::Recover));
    }
    for (mi, m) in case.masters.iter().enumerate() {
        let mut frames: Vec<(u64, u16)> = vec![];
        let mut n = 0u16;
        for k in 0..case.intervals as u64 {
            if m.pattern & (1 << k) != 0 {
                frames.push((k * TICKS_PER_I + m.offset, m.seq_base.wrapping_add(n)));
                n = n.wrapping_add(1);
            }
        }
        let steps_at = |t: u64| if m.late_from > 0 && t / TICKS_PER_I >= m.late_from as u64 { m.steps_late } else { m.steps };
        match m.mode {
            1 => {
                let dup: Vec<_> = frames.iter().map(|(t, s)| (*t, *s)).collect();
                frames.extend(dup);
            }
            2 => {
                // swap the sequence ids of adjacent pairs (the later frame arrives first)
                let mut i = 0;
                while i + 1 < frames.len() {
                    let (a, b2) = (frames[i].1, frames[i + 1].1);
                    frames[i].1 = b2;
                    frames[i + 1].1 = a;
                    i += 2;
                }
            }
            4 => {
                // bursts: every announcement consists of 3..8 Announces (consecutive sequence ids)
                // within a few ticks, as from a master announcing several times per interval of
                // this port
                let k = 3 + (m.seq_base % 6) as u64;
                let mut out = vec![];
                let mut seq = m.seq_base;
                for (t, _) in frames.iter() {
                    for j in 0..k {
                        out.push((*t + j.min(TICKS_PER_I - 1 - (*t % TICKS_PER_I)), seq));
                        seq = seq.wrapping_add(1);
                    }
                }
                frames = out;
            }
            3 => {
                // every third frame carries a stale sequence id
                for (i, f) in frames.iter_mut().enumerate() {
                    if i % 3 == 2 {
                        f.1 = f.1.wrapping_sub(5);
                    }
                }
            }
            _ => {}
        }
        for (t, s) in frames {
            evs.push((t, order, Ev::Ann { master: mi, seq: s, steps: steps_at(t) }));
            order += 1;
        }
    }
    evs.sort_by_key(|e| (e.0, e.1));
    let pids: Vec<Pid> = case.masters.iter().map(|m| Pid { clock: if m.own_identity { own_clock } else { clock_id(m.id).0 }, port: if m.own_identity { if m.lower_port { 0 } else { 9 } } else { m.port.max(1) } }).collect();
    let mut receipts: Vec<Receipt> = vec![];
    let mut snaps: Vec<Snap> = vec![];
    for (t, _, ev) in evs {
        match ev {
            Ev::Ann { master, seq, steps } => {
                let m = &case.masters[master];
                let src = Src { pid: pids[master], domain: 0, sdo: 0, minor_version: 1 };
                let mut body = AnnounceBody::default();
                body.gm_identity = clock_id(m.id).0;
                body.gm_priority1 = m.p1;
                body.steps_removed = steps;
                let msg = src.announce(seq, body);
                if let Err(p) = node.call(0, Call::GeneralRx(msg.encode())) {
                    rep.violation(&format!("C06|panic|{}|{}", p.site(), p.class()), &format!("announce receive panicked: {}", p.describe()), replay.clone());
                    return false;
                }
                rep.ev("announce_receipt");
                receipts.push(Receipt { t, master, qualifying: steps < 255 && !m.own_identity });
            }
            Ev::Fault | Ev::Recover => {
                // one Pdelay_Req; answered by two responders (fault) or one one-step responder
                let is_fault = matches!(ev, Ev::Fault);
                let (oc, op) = node.port_identity_bytes(0);
                let own = Pid { clock: oc, port: op };
                let now = 1000 * SEC + t as u128 * (SEC / TICKS_PER_I as u128);
                let mut ok = false;
                if let Ok(acts) = node.call(0, Call::DelayRequestTimer) {
                    for a in acts {
                        if let Act::SendEvent { ctx, data, .. } = a {
                            let Ok(m) = Msg::decode(&data) else { continue };
                            if m.hdr.msg_type != T_PDELAY_REQ {
                                continue;
                            }
                            if let Some(c) = ctx {
                                let _ = node.call(0, Call::TxTimestamp(c, time_from_units(now)));
                            }
                            let responders: &[u8] = if is_fault { &[0x71, 0x72] } else { &[0x71] };
                            for r in responders {
                                let src = Src::new(clock_id(*r).0, 1);
                                let resp = src.pdelay_resp(m.hdr.seq, false, Ts { secs: 1000 + t / TICKS_PER_I, nanos: 500 }, own, 0);
                                let _ = node.call(0, Call::EventRx(resp.encode(), time_from_units(now + 2000 * (1u128 << 32))));
                            }
                            ok = true;
                        }
                    }
                }
                let st = node.port_state(0);
                if ok && is_fault && st == PortState::Faulty {
                    rep.ev("port_made_faulty");
                }
                if ok && !is_fault && st != PortState::Faulty {
                    rep.ev("port_recovered_from_faulty");
                }
            }
            Ev::Bmca => {
                if let Err(p) = node.bmca() {
                    rep.violation(&format!("C06|panic|{}|{}", p.site(), p.class()), &format!("bmca panicked: {}", p.describe()), replay.clone());
                    return false;
                }
                let pd = node.inst().parent_ds();
                snaps.push(Snap { t, state: node.port_state(0), parent: Pid { clock: pd.parent_port_identity.clock_identity.0, port: pd.parent_port_identity.port_number } });
                rep.ev("bmca_snapshot");
            }
        }
    }
    // ------------------------------------------------------------------ history checker
    let window = 4 * TICKS_PER_I;
    let mut interesting = false;
    for s in &snaps {
        let selected: Option<usize> = match s.state {
            PortState::Slave => pids.iter().position(|p| *p == s.parent),
            _ => None,
        };
        if s.state == PortState::Slave {
            interesting = true;
            rep.ev("slave_after_bmca");
            match selected {
                None => {
                    rep.violation("C06|N|slave-of-unknown-parent", &format!("t={}: port is Slave with parent {:?} that never announced", s.t, s.parent), replay.clone());
                }
                Some(mi) => {
                    let m = &case.masters[mi];
                    // N1: two receipts within the window
                    let n = receipts.iter().filter(|r| r.master == mi && r.qualifying && r.t <= s.t && s.t - r.t < window).count();
                    if n < 2 {
                        rep.violation(
                            "C06|N1|parent-with-fewer-than-two-receipts-in-window",
                            &format!("BMCA at t={} ticks (I=64): Slave of master {} with {n} Announce receipt(s) in the preceding 4 intervals", s.t, m.id),
                            replay.clone(),
                        );
                    }
                    if n >= 2 {
                        let distinct_seq_possible = m.mode != 1;
                        if !distinct_seq_possible {
                            rep.observe("parent qualified while every Announce was delivered twice (duplicate sequence ids count as receipts)");
                        }
                    }
                    // N2
                    if m.steps >= 255 && (m.late_from == 0 || m.steps_late >= 255) {
                        rep.violation("C06|N2|steps-removed-255", &format!("t={}: Slave of a master announcing stepsRemoved {}", s.t, m.steps), replay.clone());
                    }
                    if m.own_identity {
                        rep.violation("C06|N2|own-identity", &format!("t={}: Slave of a master bearing the instance's own clock identity", s.t), replay.clone());
                    }
                }
            }
        }
        if s.state == PortState::Passive {
            interesting = true;
            rep.ev("passive_after_bmca");
            // some master must be qualified
            let any = (0..case.masters.len()).any(|mi| {
                let m = &case.masters[mi];
                !m.own_identity && receipts.iter().filter(|r| r.master == mi && r.qualifying && r.t <= s.t && s.t - r.t < window).count() >= 2
            });
            // a lower-numbered port of the own instance heard within the last two intervals keeps
            // the port out of the master state by itself
            let sibling = (0..case.masters.len()).any(|mi| {
                let m = &case.masters[mi];
                m.own_identity && m.lower_port && receipts.iter().any(|r| r.master == mi && r.t <= s.t && s.t - r.t <= 2 * TICKS_PER_I)
            });
            if sibling {
                rep.ev("passive_by_own_lower_port");
            }
            if !any && !sibling {
                rep.violation("C06|N1|passive-without-qualified-master", &format!("BMCA at t={}: port Passive although no master has two receipts in the window", s.t), replay.clone());
            }
        }
    }
    // L1: silent masters are dropped
    for (mi, m) in case.masters.iter().enumerate() {
        let last = receipts.iter().filter(|r| r.master == mi).map(|r| r.t).max();
        let Some(last) = last else { continue };
        for s in &snaps {
            if s.t > last + 5 * TICKS_PER_I && s.state == PortState::Slave && s.parent == pids[mi] {
                rep.violation("C06|L1|silent-master-still-parent", &format!("master {} sent its last Announce at t={last}, still parent at BMCA t={} (> 5 intervals later)", m.id, s.t), replay.clone());
                break;
            }
            if s.t > last + 5 * TICKS_PER_I {
                rep.ev("l1_checked");
            }
        }
    }
    // L2: a steadily announcing best master is never dropped. Judged for the best (lowest p1)
    // master among those that are well-formed; "steadily" = present in every interval from k0 on.
    if case.own_class >= 128 && case.masters.len() <= 8 && case.faulty.is_none() {
        let wellformed: Vec<usize> = (0..case.masters.len()).filter(|&i| case.masters[i].steps < 255 && case.masters[i].late_from == 0 && !case.masters[i].own_identity && case.masters[i].mode == 0).collect();
        for &mi in &wellformed {
            let m = &case.masters[mi];
            // first interval from which the master is present in every interval until the end
            let mut k0 = case.intervals;
            for k in (0..case.intervals).rev() {
                if m.pattern & (1 << k) != 0 {
                    k0 = k;
                } else {
                    break;
                }
            }
            if k0 + 3 >= case.intervals {
                continue;
            }
            // all better masters must have been silent for good since before k0 (expired: > 5 I)
            let better_silent_by = case
                .masters
                .iter()
                .enumerate()
                .filter(|(j, o)| *j != mi && o.p1 < m.p1 && (o.steps < 255 || (o.late_from > 0 && o.steps_late < 255)) && !o.own_identity)
                .map(|(j, _)| receipts.iter().filter(|r| r.master == j).map(|r| r.t).max().map(|t| t + 6 * TICKS_PER_I).unwrap_or(0))
                .max()
                .unwrap_or(0);
            let equal_rank = case.masters.iter().enumerate().any(|(j, o)| j != mi && o.p1 == m.p1);
            if equal_rank {
                continue;
            }
            let from = (k0 as u64 * TICKS_PER_I + m.offset + 2 * TICKS_PER_I).max(better_silent_by);
            for s in &snaps {
                if s.t >= from {
                    rep.ev("l2_checked");
                    if !(s.state == PortState::Slave && s.parent == pids[mi]) {
                        rep.violation(
                            "C06|L2|steady-best-master-not-parent",
                            &format!(
                                "master {} (p1 {}) announced in every interval from {k0} on and is the best candidate, but at BMCA t={} the port is {} with parent {:?}",
                                m.id,
                                m.p1,
                                s.t,
                                state_name(s.state),
                                s.parent
                            ),
                            replay.clone(),
                        );
                        break;
                    }
                }
            }
        }
    }
    if verbose {
        for s in &snaps {
            eprintln!("bmca t={} state={} parent={:?}", s.t, state_name(s.state), s.parent);
        }
    }
    interesting
}

fn single(pattern: u32, phase: u64, offset: u64, seq_base: u16, seed: u64) -> Case {
    Case {
        masters: vec![MasterScript { id: 0x10, p1: 100, pattern, offset, seq_base, steps: 0, mode: 0, own_identity: false, lower_port: false, port: 1, late_from: 0, steps_late: 0 }],
        intervals: 16,
        bmca_phase: phase,
        own_class: 248,
        seed,
        faulty: None,
    }
}

pub fn run(rep: &mut Report, tier: &str, seed: u64, shard: (u32, u32), replay: Option<&str>) {
    rep.rule = "one real port, 1-3 (and 8/9) scripted masters announcing according to presence patterns over 16 announce intervals (I = 64 ticks), per-master arrival offsets, four BMCA phases, sequence ids straddling 65535->0, duplicated / re-ordered / stale sequence ids, stepsRemoved 254/255/256, own-identity senders, clockClass 248 and 6 (passive) instances; receipts and per-BMCA snapshots are checked offline; single-master patterns are enumerated (all 2^16 in thorough); distinct = distinct cases; non-trivial = the port was Slave or Passive after at least one BMCA".into();
    rep.require(&["announce_receipt", "bmca_snapshot", "slave_after_bmca", "passive_after_bmca", "l1_checked", "l2_checked", "port_made_faulty", "port_recovered_from_faulty", "two_ports_of_one_foreign_clock", "burst_then_silence"]);
    if let Some(path) = replay {
        let v: serde_json::Value = serde_json::from_str(&std::fs::read_to_string(path).unwrap()).unwrap();
        if let Ok(c) = serde_json::from_value::<Case>(v["case"].clone()) {
            run_case(rep, &c, true);
        }
        println!("replay: {} finding(s)", rep.findings.len());
        for f in rep.findings.values() {
            println!("  {}", f.what);
        }
        return;
    }
    let mut rng = StdRng::seed_from_u64(seed ^ 0xc06 ^ ((shard.0 as u64) << 40));
    let mut count = |rep: &mut Report, case: &Case| {
        if run_case(rep, case, false) {
            rep.distinct_case(&format!("{case:?}"));
        }
        rep.evaluations += 1;
    };
    let phases = [6u64, 22, 38, 54];
    let thorough = tier == "thorough";
    // single master: enumerate presence patterns
    let mut idx = 0u64;
    let mut enumerated = 0u64;
    for pattern in 0u32..65536 {
        let weight = pattern.count_ones();
        for (pi, &ph) in phases.iter().enumerate() {
            idx += 1;
            if idx % shard.1 as u64 != shard.0 as u64 {
                continue;
            }
            let take = thorough || weight <= 3 || weight >= 15 || (crate::report::fnv(&[pattern as u8, (pattern >> 8) as u8, pi as u8, seed as u8]) % 24 == 0);
            if !take {
                continue;
            }
            let offset = [16u64, 32, 48, 60][(pattern as usize + pi) % 4];
            let case = single(pattern, ph, offset, 65530, seed.wrapping_add(idx));
            count(rep, &case);
            enumerated += 1;
        }
    }
    rep.extra.insert("single_master_patterns_run".into(), json!(enumerated));
    rep.extra.insert("single_master_pattern_space".into(), json!(65536 * 4));
    rep.extra.insert("single_master_exhaustive".into(), json!(thorough));
    // a port disabled by a peer-delay fault keeps ageing what it heard
    if shard.0 == 0 {
        for from in 0..5u32 {
            for len in [2u32, 5, 6, 8, 10] {
                for (pi, &ph) in phases.iter().enumerate() {
                    for bits in [0b11u32, 0b111, 0b1011] {
                        let shift = (from + pi as u32 % 2).saturating_sub(1);
                        let mut case = single((bits << shift) | if pi % 2 == 0 { 0 } else { 1 << (from + len).min(15) }, ph, [16u64, 48][pi % 2], 65530, seed.wrapping_add(77 + from as u64));
                        case.faulty = Some((from, (from + len).min(15)));
                        count(rep, &case);
                    }
                }
            }
        }
    }
    // a burst, then silence
    if shard.0 == 0 {
        for k in 0..10u32 {
            for sb in 0..6u16 {
                for (pi, &ph) in phases.iter().enumerate() {
                    let mut case = single((1 << k) | if pi % 2 == 0 { 0 } else { 1 << (k + 1) }, ph, [16u64, 40][pi % 2], 65528 + sb, seed.wrapping_add(500 + k as u64));
                    case.masters[0].mode = 4;
                    count(rep, &case);
                    rep.ev("burst_then_silence");
                }
            }
        }
    }
    // two ports of one foreign clock, one Announce each: neither qualifies
    if shard.0 == 0 {
        for k in 0..12u32 {
            for gap in 0..3u32 {
                for (pi, &ph) in phases.iter().enumerate() {
                    let mut case = single(1 << k, ph, [16u64, 48][pi % 2], 65530, seed.wrapping_add(300 + k as u64));
                    let mut m2 = case.masters[0].clone();
                    m2.port = 2;
                    m2.pattern = 1 << (k + gap);
                    m2.offset = [40u64, 8][pi % 2];
                    m2.seq_base = 65531 + gap as u16;
                    case.masters.push(m2);
                    count(rep, &case);
                    rep.ev("two_ports_of_one_foreign_clock");
                }
            }
        }
    }
    // multi master / hostile variants
    let n: u64 = if thorough { 300_000 } else { 8_000 };
    let budget = Budget::new(n, if thorough { 600.0 } else { 15.0 });
    let mut i = 0;
    while budget.left(i) {
        i += 1;
        let nm = match rng.gen_range(0..10) {
            0..=3 => 1,
            4..=6 => 2,
            7 => 3,
            8 => 8,
            _ => 9,
        };
        let mut masters = vec![];
        for k in 0..nm {
            let style = rng.gen_range(0..6);
            let pattern: u32 = match style {
                0 => 0xffff,
                1 => 0x00ff,
                2 => 0xff00,
                3 => 0xffff & !(1 << rng.gen_range(0..16)),
                _ => rng.gen_range(0..65536),
            };
            masters.push(MasterScript {
                id: 0x10 + k as u8,
                p1: if nm >= 8 { 100 + k as u8 } else { [90u8, 100, 110, 120][rng.gen_range(0..4)] },
                pattern,
                offset: rng.gen_range(1..63),
                seq_base: [0u16, 65530, 65535, 32760, rng.gen()][rng.gen_range(0..5)],
                steps: [0u16, 0, 0, 1, 254, 255, 256][rng.gen_range(0..7)],
                mode: [0u8, 0, 0, 1, 2, 3, 4][rng.gen_range(0..7)],
                own_identity: rng.gen_bool(0.05),
                lower_port: false,
                port: 1,
                late_from: if rng.gen_bool(0.15) { rng.gen_range(2..12) } else { 0 },
                steps_late: [255u16, 256, 65535, 300, 0, 254][rng.gen_range(0..6)],
            });
        }
        if nm <= 3 && rng.gen_bool(0.2) {
            // another port of the first master's clock on the segment, announcing sparsely
            let mut m2 = masters[0].clone();
            m2.port = [2u16, 3, 65535][rng.gen_range(0..3)];
            m2.pattern = (1u32 << rng.gen_range(0..16)) | (1u32 << rng.gen_range(0..16)) | if rng.gen_bool(0.3) { rng.gen_range(0..65536) } else { 0 };
            m2.offset = rng.gen_range(1..63);
            m2.seq_base = masters[0].seq_base.wrapping_add(rng.gen_range(0..40));
            m2.own_identity = false;
            masters.push(m2);
        }
        if rng.gen_bool(0.15) {
            // a sibling port of the own instance announcing in (nearly) every interval
            masters.push(MasterScript {
                id: 0x50,
                p1: 128,
                pattern: if rng.gen_bool(0.7) { 0xffff } else { 0xffff & !(1 << rng.gen_range(0..16)) },
                offset: rng.gen_range(1..63),
                seq_base: rng.gen(),
                steps: 0,
                mode: 0,
                own_identity: true,
                lower_port: true,
                port: 0,
                late_from: 0,
                steps_late: 0,
            });
        }
        let faulty = if rng.gen_bool(0.25) {
            let from = rng.gen_range(0..10u32);
            Some((from, (from + rng.gen_range(1..12)).min(15)))
        } else {
            None
        };
        let case = Case { masters, intervals: 16, bmca_phase: phases[rng.gen_range(0..4)], own_class: if rng.gen_bool(0.25) { 6 } else { 248 }, seed: rng.gen(), faulty };
        if i <= 2 {
            rep.sample(serde_json::to_value(&case).unwrap());
        }
        count(rep, &case);
    }
}
