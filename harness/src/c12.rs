//! C12 - no stuck states: ports keep progressing when the host obeys timer actions.
//! Oracle: the host model's armed-timer set + bounded progress in virtual time.

use rand::rngs::StdRng;
use rand::{Rng, SeedableRng};
use serde_json::json;
use statime::observability::port::PortState;

use crate::drive::*;
use crate::hostile::{build_node, Config, PortSpec};
use crate::node::*;
use crate::refcodec::*;
use crate::report::*;
use crate::sim::*;

#[derive(Clone, Debug, serde::Serialize, serde::Deserialize)]
pub enum FaultOp {
    /// mute / unmute a peer node (index into peers)
    Mute(usize, bool),
    LoseTxTimestamps(u8),
    SlaveOnly(bool),
    Link(usize, bool),
    Wait(u64),
}

#[derive(Clone, Debug, serde::Serialize, serde::Deserialize)]
pub struct Peer {
    pub id: u8,
    pub p1: u8,
    pub slave_only: bool,
    /// which port of the node under test it shares a segment with
    pub on_port: usize,
    /// its Announces carry stepsRemoved 254 (the largest value that still qualifies): a parent at
    /// the far end of a long chain, the node under test then holds stepsRemoved 255
    #[serde(default)]
    pub far: bool,
    /// its Announces carry a PATH_TRACE TLV with this many entries
    #[serde(default)]
    pub path_len: Option<usize>,
    /// a two-port clock attached to port 0 *and* port 1 of the node under test (two parallel
    /// links to the same grandmaster: one of the two ports goes passive)
    #[serde(default)]
    pub dual: bool,
}

#[derive(Clone, Debug, serde::Serialize, serde::Deserialize)]
pub struct Case {
    pub cfg: Config,
    pub peers: Vec<Peer>,
    pub script: Vec<FaultOp>,
    /// 0 = continue with total silence, 1 = steadily announcing better master on port 0
    pub continuation: u8,
    pub seed: u64,
    /// peer index that stays reachable during the recovery window (None = first per port)
    #[serde(default)]
    pub recover_with: Option<usize>,
}

fn interval_ns(log: i8) -> u64 {
    (2f64.powi(log as i32) * 1e9) as u64
}

pub fn run_case(rep: &mut Report, case: &Case, verbose: bool) {
    let replay = serde_json::to_value(case).unwrap();
    let mut sim = Sim::new(case.seed);
    sim.keep_log = true;
    let Ok((node, _rec)) = build_node(&case.cfg) else { return };
    let a = sim.add_node(node, case.seed % 1_000_000_000);
    let n_ports = case.cfg.ports.len();
    let mut link_ends: Vec<Vec<(usize, usize)>> = (0..n_ports).map(|p| vec![(a, p)]).collect();
    let mut peer_idx = vec![];
    for (i, p) in case.peers.iter().enumerate() {
        let mut b = Build::new(p.id);
        b.priority1 = p.p1;
        b.slave_only = p.slave_only;
        if p.slave_only {
            b.clock_class = 255;
        }
        let ps = &case.cfg.ports[p.on_port];
        b.p2p = ps.p2p;
        b.log_announce = ps.log_announce;
        b.log_sync = ps.log_sync;
        b.log_delay = ps.log_delay;
        b.receipt_timeout = ps.receipt_timeout.max(2);
        b.domain = case.cfg.domain;
        b.sdo = case.cfg.sdo;
        b.seed = case.seed.wrapping_add(100 + i as u64);
        b.clock = Some(perfect_clock(case.cfg.start));
        let dual = p.dual && n_ports >= 2;
        if dual {
            b.n_ports = 2;
            rep.ev("peer_on_two_ports_of_the_node");
        }
        let Ok(built) = b.build() else { return };
        let idx = sim.add_node(built.node, (case.seed >> (8 + i)) % 1_000_000_000);
        if dual {
            link_ends[0].push((idx, 0));
            link_ends[1].push((idx, 1));
        } else {
            link_ends[p.on_port].push((idx, 0));
        }
        peer_idx.push(idx);
        if p.far {
            while sim.announce_steps.len() <= idx {
                sim.announce_steps.push(None);
            }
            sim.announce_steps[idx] = Some(254);
            rep.ev("peer_with_steps_removed_254");
        }
        if let Some(n) = p.path_len {
            while sim.announce_path_len.len() <= idx {
                sim.announce_path_len.push(None);
            }
            sim.announce_path_len[idx] = Some(n);
            rep.ev("peer_announcing_a_long_path_trace");
        }
    }
    // all clocks share the same true-time origin
    for sn in sim.nodes.iter_mut() {
        let mut c = sn.node.clock.lock().unwrap();
        *c = SimClock::new(0, case.cfg.start, 0.0);
    }
    // the host's clock of the node under test may refuse control calls (progress of the port state
    // machine does not depend on the clock's answers)
    if case.cfg.clock_fail_every > 0 {
        sim.nodes[a].node.clock.lock().unwrap().fail_every = Some(case.cfg.clock_fail_every);
        rep.ev("node_with_failing_clock");
    }
    let mut links = vec![];
    for ends in link_ends {
        links.push(sim.add_link(ends, 20_000, 5_000, 0.0));
    }
    let max_i = case.cfg.ports.iter().map(|p| interval_ns(p.log_announce)).max().unwrap_or(1_000_000_000);
    let rt = case.cfg.ports.iter().map(|p| p.receipt_timeout as u64).max().unwrap_or(3);
    macro_rules! bail_on_panic {
        () => {
            if let Some((pn, pp, call, p)) = &sim.panic {
                // a port whose timer call panics never acts again: the host did what the actions
                // asked for and the port is stuck (panics in other calls are C03's alone)
                if *pn == a && call.ends_with("Timer") {
                    rep.violation(
                        &format!("C12|panic-in-requested-timer-call|{call}|{}", p.site()),
                        &format!("port {pp}: the {call} call the host made as requested panicked ({}); the port emits nothing and arms nothing from then on", p.describe()),
                        replay.clone(),
                    );
                } else {
                    rep.observe("simulation ended by a panic (see C03)");
                }
                return;
            }
        };
    }
    // ---------------- phase 1: fault script
    let mut slave_only = case.cfg.slave_only;
    for op in &case.script {
        match op {
            FaultOp::Mute(i, m) => {
                if let Some(&idx) = peer_idx.get(*i) {
                    sim.nodes[idx].muted = *m;
                }
            }
            FaultOp::LoseTxTimestamps(pct) => sim.nodes[a].lose_tx_timestamp = *pct as f64 / 100.0,
            FaultOp::SlaveOnly(v) => {
                slave_only = *v;
                let _ = sim.nodes[a].node.set_slave_only(*v);
            }
            FaultOp::Link(l, up) => {
                if *l < links.len() {
                    sim.set_link(links[*l], *up);
                }
            }
            FaultOp::Wait(intervals) => {
                let t = sim.now + intervals * max_i;
                sim.run_until(t);
                bail_on_panic!();
            }
        }
    }
    let start_states: Vec<PortState> = (0..n_ports).map(|p| sim.nodes[a].node.port_state(p)).collect();
    for s in &start_states {
        rep.ev(&format!("start_state_{}", state_name(*s)));
    }
    let was_faulty_recently = sim.log.iter().any(|e| e.node == a && matches!(e.kind, LogKind::StateChange { to: PortState::Faulty, .. }));
    // ---------------- phase 2: continuation
    sim.nodes[a].lose_tx_timestamp = 0.0;
    for l in &links {
        sim.set_link(*l, true);
    }
    if case.continuation == 0 {
        // (a) total silence. If a port is Faulty the fault first clears (one responder left) for a
        // recovery window, so that "ports disabled by a peer-delay fault excepted" does not hide
        // what happens after the recovery.
        let any_faulty = (0..n_ports).any(|p| sim.nodes[a].node.port_state(p) == PortState::Faulty);
        if any_faulty {
            let mut kept: Vec<usize> = vec![];
            let order: Vec<usize> = match case.recover_with {
                Some(k) if k < peer_idx.len() => std::iter::once(k).chain((0..peer_idx.len()).filter(move |i| *i != k)).collect(),
                _ => {
                    if case.seed & 1 == 0 {
                        (0..peer_idx.len()).collect()
                    } else {
                        (0..peer_idx.len()).rev().collect()
                    }
                }
            };
            for i in order {
                let idx = peer_idx[i];
                let port = case.peers[i].on_port;
                if !kept.contains(&port) {
                    kept.push(port);
                    sim.nodes[idx].muted = false;
                } else {
                    sim.nodes[idx].muted = true;
                }
            }
            let max_d = case.cfg.ports.iter().map(|p| interval_ns(p.log_delay)).max().unwrap_or(1_000_000_000);
            sim.run_until(sim.now + (8 * max_i).max(4 * max_d));
            bail_on_panic!();
            rep.ev("recovery_window");
        }
        for &idx in &peer_idx {
            sim.nodes[idx].muted = true;
        }
        let ta = (2 * rt + 6) * max_i;
        let t_end = sim.now + ta;
        sim.run_until(t_end);
        bail_on_panic!();
        rep.ev("continuation_silence");
        if slave_only {
            rep.ev("exempt_slave_only");
        } else {
            let mut all_master = true;
            for p in 0..n_ports {
                let st = sim.nodes[a].node.port_state(p);
                if st == PortState::Faulty {
                    all_master = false;
                    if case.cfg.ports[p].p2p {
                        rep.ev("exempt_faulty_port");
                    } else {
                        // only a peer-delay fault disables a port; an end-to-end port has none
                        rep.violation("C12|silence|faulty-without-peer-delay-mechanism", &format!("port {p} uses the end-to-end delay mechanism and is Faulty after {} s of silence: nothing can ever take it out of that state", ta / 1_000_000_000), replay.clone());
                    }
                    continue;
                }
                if st != PortState::Master {
                    all_master = false;
                    let armed: Vec<&str> = (0..5).filter(|k| sim.nodes[a].timers[p][*k].is_some()).map(|k| TIMER_NAMES[k]).collect();
                    let needs = match st {
                        PortState::Listening | PortState::Slave | PortState::Passive => T_RECEIPT_TIMER,
                        _ => T_ANNOUNCE_TIMER,
                    };
                    let witness = if sim.nodes[a].timers[p][needs].is_none() { format!("{}-timer-not-armed", TIMER_NAMES[needs]) } else { "timer-armed-but-late".to_string() };
                    // which history led here: was the port's announce receipt timer running when it
                    // (last) became Faulty?  (A master port's is not: known finding.)
                    let at_entry = sim.log.iter().rev().find_map(|e| match e.kind {
                        LogKind::StateChange { to: PortState::Faulty, receipt_armed, .. } if e.node == a && e.port == p => Some(receipt_armed),
                        _ => None,
                    });
                    let ctx = match (was_faulty_recently, at_entry) {
                        (_, Some(true)) => "after-faulty-recovery|receipt-timer-at-fault-entry=armed",
                        (_, Some(false)) => "after-faulty-recovery|receipt-timer-at-fault-entry=unarmed",
                        (true, None) => "after-faulty-recovery|other-port",
                        (false, None) => "no-fault",
                    };
                    rep.violation(
                        &format!("C12|silence|not-master|{}|{witness}|{ctx}", state_name(st)),
                        &format!("after {} s of total silence port {p} is {} (armed timers: {armed:?}); started from {:?}", ta / 1_000_000_000, state_name(st), start_states.iter().map(|s| state_name(*s)).collect::<Vec<_>>()),
                        replay.clone(),
                    );
                }
            }
            if all_master {
                // cadence over the next 50 intervals
                let mark = sim.log.len();
                let t0 = sim.now;
                sim.run_until(t0 + 50 * max_i);
                bail_on_panic!();
                for p in 0..n_ports {
                    for (mt, ivl, name) in [(T_ANNOUNCE, interval_ns(case.cfg.ports[p].log_announce), "announce"), (T_SYNC, interval_ns(case.cfg.ports[p].log_sync), "sync")] {
                        let times: Vec<u64> = sim.log[mark..].iter().filter(|e| e.node == a && e.port == p && matches!(e.kind, LogKind::Tx { msg_type, .. } if msg_type == mt)).map(|e| e.t).collect();
                        rep.ev("cadence_checked");
                        let mut prev = t0;
                        let mut worst = 0u64;
                        for t in times.iter().chain([&(t0 + 50 * max_i)]) {
                            worst = worst.max(t - prev);
                            prev = *t;
                        }
                        if worst > ivl + ivl / 2 + 1_000_000 {
                            rep.violation(&format!("C12|silence|cadence|{name}"), &format!("master port {p}: gap of {:.3} s between {name} messages (interval {:.3} s), {} sent in 50 intervals", worst as f64 / 1e9, ivl as f64 / 1e9, times.len()), replay.clone());
                        }
                    }
                }
            }
        }
    } else {
        // (b) a steadily announcing better master on port 0 (peer 0), nobody else
        for (i, &idx) in peer_idx.iter().enumerate() {
            sim.nodes[idx].muted = i != 0;
        }
        let p0 = &case.cfg.ports[0];
        // a master attached to two ports of the node is selected through one of them (the other
        // goes passive): which one is the data set comparison's business (C05), here it is only
        // required that one of them becomes slave
        let dual0 = !case.peers.is_empty() && case.peers[0].dual && n_ports >= 2;
        let eligible = !dual0 && !case.peers.is_empty() && case.peers[0].on_port == 0 && !case.peers[0].slave_only && case.peers[0].p1 < case.cfg.p1 && !p0.master_only && case.cfg.class >= 128 && p0.aml != 2;
        // a port that is still disabled by a peer-delay fault first needs one clean exchange, which
        // takes up to two (randomised) peer delay request intervals
        let tb = (2 * rt + 8) * max_i + if p0.p2p { 4 * interval_ns(p0.log_delay) } else { 0 };
        sim.run_until(sim.now + tb);
        bail_on_panic!();
        rep.ev("continuation_master");
        if dual0 && !case.peers[0].slave_only && case.peers[0].p1 < case.cfg.p1 && case.cfg.class >= 128 && case.cfg.ports.iter().take(2).all(|p| !p.master_only && p.aml != 2) {
            let states: Vec<PortState> = (0..2).map(|p| sim.nodes[a].node.port_state(p)).collect();
            let faulty = (0..2).any(|p| states[p] == PortState::Faulty && case.cfg.ports[p].p2p);
            if !faulty && !states.contains(&PortState::Slave) {
                rep.violation("C12|better-master|no-slave-port|two-links", &format!("a better master announced steadily for {} s on both ports, which are {} and {}", tb / 1_000_000_000, state_name(states[0]), state_name(states[1])), replay.clone());
            }
        }
        if eligible {
            let st = sim.nodes[a].node.port_state(0);
            if st == PortState::Faulty && p0.p2p {
                rep.ev("exempt_faulty_port");
            } else if st != PortState::Slave {
                let armed: Vec<&str> = (0..5).filter(|k| sim.nodes[a].timers[0][*k].is_some()).map(|k| TIMER_NAMES[k]).collect();
                rep.violation(&format!("C12|better-master|not-slave|{}", state_name(st)), &format!("a better master announced steadily for {} s but port 0 is {} (armed timers {armed:?})", tb / 1_000_000_000, state_name(st)), replay.clone());
            } else {
                let mark = sim.log.len();
                let t0 = sim.now;
                let ivl = interval_ns(p0.log_delay);
                let span = 50 * ivl.max(max_i);
                sim.run_until(t0 + span);
                bail_on_panic!();
                let mt = if p0.p2p { T_PDELAY_REQ } else { T_DELAY_REQ };
                let times: Vec<u64> = sim.log[mark..].iter().filter(|e| e.node == a && e.port == 0 && matches!(e.kind, LogKind::Tx { msg_type, .. } if msg_type == mt)).map(|e| e.t).collect();
                rep.ev("cadence_checked");
                let mut prev = t0;
                let mut worst = 0u64;
                for t in times.iter().chain([&(t0 + span)]) {
                    worst = worst.max(t - prev);
                    prev = *t;
                }
                if sim.nodes[a].node.port_state(0) == PortState::Slave && worst > 2 * ivl + 1_000_000 {
                    let armed = sim.nodes[a].timers[0][T_DELAY_REQ_TIMER].is_some();
                    rep.violation(&format!("C12|better-master|delay-request-cadence|timer-armed={armed}"), &format!("slave port 0: gap of {:.3} s between delay requests (interval {:.3} s, allowed 2x), {} sent", worst as f64 / 1e9, ivl as f64 / 1e9, times.len()), replay.clone());
                }
            }
        }
    }
    rep.evn("sim_events", sim.events_processed);
    rep.distinct_case(&format!("o{}", sim.order_hash));
    if verbose {
        for e in &sim.log {
            if e.node == a && matches!(e.kind, LogKind::StateChange { .. }) {
                eprintln!("{:.3}s p{} {:?}", e.t as f64 / 1e9, e.port, e.kind);
            }
        }
    }
}

fn gen_case(rng: &mut StdRng) -> Case {
    let n_ports = [1usize, 1, 2][rng.gen_range(0..3)];
    let slave_only = rng.gen_bool(0.1);
    let ports: Vec<PortSpec> = (0..n_ports)
        .map(|_| PortSpec {
            p2p: rng.gen_bool(0.4),
            master_only: !slave_only && rng.gen_bool(0.1),
            // mixed announce intervals on one instance (the BMCA then runs at the shortest one)
            log_announce: [-1i8, 0, 0, -3, 1][rng.gen_range(0..5)],
            log_sync: [-2i8, 0][rng.gen_range(0..2)],
            log_delay: [-1i8, 0][rng.gen_range(0..2)],
            receipt_timeout: [2u8, 3][rng.gen_range(0..2)],
            asymmetry: 0,
            aml: 0,
            minor_zero: false,
        })
        .collect();
    let cfg = Config {
        id: 0x50,
        p1: 128,
        class: if slave_only { 255 } else { [248u8, 248, 6][rng.gen_range(0..3)] },
        slave_only,
        path_trace: rng.gen_bool(0.3),
        domain: 0,
        sdo: 0,
        filter: [0u8, 2][rng.gen_range(0..2)],
        tlv: 1,
        ports,
        clock_fail_every: [0u32, 0, 0, 1, 3][rng.gen_range(0..5)],
        seed: rng.gen(),
        start: 1_700_000_000 * SEC,
    };
    let so0 = rng.gen_bool(0.2);
    let mut peers = vec![Peer { id: 0x10, p1: if so0 { 255 } else { [1u8, 1, 250][rng.gen_range(0..3)] }, slave_only: so0, on_port: 0, far: !so0 && rng.gen_bool(0.2), path_len: None, dual: false }];
    if rng.gen_bool(0.6) {
        peers.push(Peer { id: 0x11, p1: 250, slave_only: rng.gen_bool(0.5), on_port: 0, far: false, path_len: None, dual: false });
    }
    if n_ports > 1 {
        peers.push(Peer { id: 0x12, p1: [1u8, 250][rng.gen_range(0..2)], slave_only: rng.gen_bool(0.3), on_port: 1, far: rng.gen_bool(0.1), path_len: None, dual: false });
    }
    if n_ports > 1 && !so0 && rng.gen_bool(0.3) {
        peers[0].dual = true;
        peers[0].p1 = 1;
    }
    if cfg.path_trace && rng.gen_bool(0.5) {
        // the longest paths that still fit into an Announce, and just beyond
        for p in peers.iter_mut() {
            if !p.slave_only && rng.gen_bool(0.7) {
                p.path_len = Some([0usize, 1, 100, 116, 117, 118, 119, 120, 121][rng.gen_range(0..9)]);
            }
        }
    }
    let mut script = vec![];
    for _ in 0..rng.gen_range(1..8) {
        script.push(match rng.gen_range(0..6) {
            0 => FaultOp::Mute(rng.gen_range(0..peers.len()), rng.gen_bool(0.5)),
            1 => FaultOp::LoseTxTimestamps([0u8, 30, 100][rng.gen_range(0..3)]),
            2 => FaultOp::SlaveOnly(rng.gen_bool(0.3)),
            3 => FaultOp::Link(rng.gen_range(0..n_ports), rng.gen_bool(0.5)),
            _ => FaultOp::Wait(rng.gen_range(1..15)),
        });
        script.push(FaultOp::Wait(rng.gen_range(1..12)));
    }
    Case { cfg, peers, script, continuation: rng.gen_range(0..2), seed: rng.gen(), recover_with: None }
}

/// the peer-delay fault family: a P2P port that was slave, lost its master, became master, is then
/// answered by two responders and finally recovers with one (slave-only) responder left
fn gen_p2p_fault_case(rng: &mut StdRng) -> Case {
    let mut c = gen_case(rng);
    c.cfg.ports.truncate(1);
    c.cfg.ports[0].p2p = true;
    c.cfg.ports[0].master_only = false;
    c.cfg.slave_only = false;
    c.cfg.class = 248;
    let so = rng.gen_bool(0.7);
    c.peers = vec![
        Peer { id: 0x10, p1: 1, slave_only: false, on_port: 0, far: false, path_len: None, dual: false },
        Peer { id: 0x11, p1: 255, slave_only: so, on_port: 0, far: false, path_len: None, dual: false },
        Peer { id: 0x12, p1: 255, slave_only: so, on_port: 0, far: false, path_len: None, dual: false },
    ];
    let w = |rng: &mut StdRng| FaultOp::Wait(rng.gen_range(8..16));
    c.script = vec![FaultOp::Mute(1, true), FaultOp::Mute(2, true), w(rng), FaultOp::Mute(0, true), w(rng), FaultOp::Mute(1, false), FaultOp::Mute(2, false), FaultOp::Wait(rng.gen_range(3..8))];
    c.continuation = rng.gen_range(0..2);
    c.recover_with = Some(rng.gen_range(0..3));
    c
}

/// A boundary clock whose P2P port is disabled by a peer-delay fault that persists (two devices
/// answer every Pdelay_Req) while a better master keeps announcing on it; a healthy sibling port
/// hears the same master over a parallel link, or another master that is better than the clock
/// itself. The healthy port must become slave: the disabled port takes no part in the election.
fn faulty_sibling(rep: &mut Report, seed: u64) {
    let replay = json!({"faulty_sibling_seed": seed});
    let same_master = seed % 2 == 0;
    let mut sim = Sim::new(seed);
    sim.keep_log = true;
    let start = 1_700_000_000 * SEC;
    let mut ab = Build::new(0x50);
    ab.n_ports = 2;
    ab.p2p_ports = vec![true, false];
    ab.seed = seed;
    ab.clock = Some(perfect_clock(start));
    let Ok(a) = ab.build() else { return };
    let mut gb = Build::new(0x10);
    gb.priority1 = 1;
    gb.n_ports = 2;
    gb.seed = seed ^ 1;
    gb.clock = Some(perfect_clock(start));
    let Ok(g) = gb.build() else { return };
    // a second device on the P2P port's link that answers peer delay requests too
    let mut rb = Build::new(0x60);
    rb.slave_only = true;
    rb.clock_class = 255;
    rb.seed = seed ^ 2;
    rb.clock = Some(perfect_clock(start));
    let Ok(r) = rb.build() else { return };
    let ai = sim.add_node(a.node, seed % 1_000_000_000);
    let gi = sim.add_node(g.node, (seed >> 10) % 1_000_000_000);
    let ri = sim.add_node(r.node, (seed >> 20) % 1_000_000_000);
    sim.add_link(vec![(ai, 0), (gi, 0), (ri, 0)], 20_000, 5_000, 0.0);
    if same_master {
        sim.add_link(vec![(ai, 1), (gi, 1)], 20_000, 5_000, 0.0);
    } else {
        let mut mb = Build::new(0x20);
        mb.priority1 = 50;
        mb.seed = seed ^ 3;
        mb.clock = Some(perfect_clock(start));
        let Ok(m2) = mb.build() else { return };
        let mi = sim.add_node(m2.node, (seed >> 30) % 1_000_000_000);
        sim.add_link(vec![(ai, 1), (mi, 0)], 20_000, 5_000, 0.0);
    }
    for sn in sim.nodes.iter_mut() {
        let mut c = sn.node.clock.lock().unwrap();
        *c = SimClock::new(0, start, 0.0);
    }
    sim.run_until(90 * 1_000_000_000);
    if let Some((pn, pp, call, p)) = &sim.panic {
        if *pn == ai && call.ends_with("Timer") {
            rep.violation(&format!("C12|panic-in-requested-timer-call|{call}|{}", p.site()), &format!("port {pp}: {}", p.describe()), replay.clone());
        }
        return;
    }
    let s0 = sim.nodes[ai].node.port_state(0);
    let s1 = sim.nodes[ai].node.port_state(1);
    if s0 != PortState::Faulty {
        rep.ev("faulty_sibling_scenario_not_established");
        return;
    }
    rep.ev("healthy_sibling_of_a_faulty_port_judged");
    if s1 != PortState::Slave {
        rep.violation(
            &format!("C12|better-master|healthy-sibling-of-faulty-port-not-slave|{}", state_name(s1)),
            &format!("port 1 (P2P) is disabled by a peer-delay fault; port 2 has heard a better master ({}) announce steadily for more than 60 s and is {}", if same_master { "the one port 1 hears, over a parallel link" } else { "another one" }, state_name(s1)),
            replay,
        );
    }
}

pub fn run(rep: &mut Report, tier: &str, seed: u64, shard: (u32, u32), replay: Option<&str>) {
    rep.rule = "a real instance (1-2 ports, E2E/P2P, master-only / slave-only, path trace, Kalman or recording filter, the daemon's TLV forwarder) in a simulated segment with 1-3 real peer instances (better / worse / slave-only) is first driven through a random fault script (peers muted and unmuted, links cut, transmit timestamps lost with 30 % / 100 %, slave-only toggled, peer-delay double responders) and then continued with (a) total silence or (b) one steadily announcing better master; bounded-progress and cadence checks in virtual time, with the host model's armed-timer set as witness; distinct = distinct event orders; evaluations = continuations".into();
    rep.require(&["continuation_silence", "continuation_master", "cadence_checked", "start_state_Listening", "start_state_Master", "start_state_Slave", "start_state_Passive", "start_state_Faulty", "sim_events", "peer_announcing_a_long_path_trace", "peer_on_two_ports_of_the_node", "healthy_sibling_of_a_faulty_port_judged"]);
    if let Some(path) = replay {
        let v: serde_json::Value = serde_json::from_str(&std::fs::read_to_string(path).unwrap()).unwrap();
        match serde_json::from_value::<Case>(v["case"].clone()) {
            Ok(c) => run_case(rep, &c, true),
            Err(e) => println!("cannot parse replay: {e}"),
        }
        println!("replay: {} finding(s)", rep.findings.len());
        for f in rep.findings.values() {
            println!("  {}", f.what);
        }
        return;
    }
    let mut rng = StdRng::seed_from_u64(seed ^ 0xc12 ^ ((shard.0 as u64) << 40));
    let n: u64 = if tier == "thorough" { 30_000 } else { 1500 };
    let budget = Budget::new(n, if tier == "thorough" { 800.0 } else { 20.0 });
    let mut i = 0;
    while budget.left(i) && budget.time_left() {
        i += 1;
        let case = if i % 8 == 0 { gen_p2p_fault_case(&mut rng) } else { gen_case(&mut rng) };
        if i <= 2 {
            rep.sample(json!({"peers": case.peers, "script": case.script, "continuation": case.continuation, "ports": case.cfg.ports}));
        }
        run_case(rep, &case, false);
        rep.evaluations += 1;
        if i % 100 == 50 {
            faulty_sibling(rep, rng.gen());
        }
    }
}
