//! C20 - the metrics exporter cannot be wedged by its clients.
//! Oracle: black-box subprocess harness: scripted client behaviours x observation-socket
//! behaviours, each sequence followed by a well-formed probe; a failure needs a witness
//! (process exit status, CPU spin measured from /proc, or idle hang after an extended deadline).

use std::io::{Read, Write};
use std::net::TcpStream;
use std::time::{Duration, Instant};

use rand::rngs::StdRng;
use rand::{Rng, SeedableRng};
use serde_json::json;

use crate::c19::start_ctx;
use crate::exporter::*;
use crate::report::*;

#[derive(Clone, Copy, Debug, PartialEq, Eq, Hash, serde::Serialize, serde::Deserialize)]
pub enum Client {
    WellFormedGet,
    CloseAfter0,
    CloseAfterPartial,
    CloseAfterGetLineOnly,
    Oversize2048,
    Oversize4096,
    NonGet,
    SplitWrites,
    ResetBeforeRequest,
    ResetAfterRequest,
    CloseBeforeReadingResponse,
}

pub const CLIENTS: [Client; 11] = [
    Client::WellFormedGet,
    Client::CloseAfter0,
    Client::CloseAfterPartial,
    Client::CloseAfterGetLineOnly,
    Client::Oversize2048,
    Client::Oversize4096,
    Client::NonGet,
    Client::SplitWrites,
    Client::ResetBeforeRequest,
    Client::ResetAfterRequest,
    Client::CloseBeforeReadingResponse,
];

#[derive(Clone, Copy, Debug, PartialEq, Eq, Hash, serde::Serialize, serde::Deserialize)]
pub enum Obs {
    Valid,
    Truncated,
    Invalid,
    Refused,
    AcceptThenClose,
}

pub const OBS: [Obs; 5] = [Obs::Valid, Obs::Truncated, Obs::Invalid, Obs::Refused, Obs::AcceptThenClose];

fn obs_mode(o: Obs, valid: &[u8]) -> ObsMode {
    match o {
        Obs::Valid => ObsMode::Valid(valid.to_vec()),
        Obs::Truncated => ObsMode::Truncated(valid.to_vec()),
        Obs::Invalid => ObsMode::Invalid,
        Obs::Refused => ObsMode::Refuse,
        Obs::AcceptThenClose => ObsMode::AcceptThenClose,
    }
}

fn connect(port: u16) -> Option<TcpStream> {
    let s = TcpStream::connect_timeout(&format!("127.0.0.1:{port}").parse().unwrap(), Duration::from_millis(500)).ok()?;
    s.set_read_timeout(Some(Duration::from_millis(300))).ok();
    s.set_write_timeout(Some(Duration::from_millis(300))).ok();
    Some(s)
}

fn reset(s: TcpStream) {
    let sock = socket2::Socket::from(s);
    let _ = sock.set_linger(Some(Duration::from_secs(0)));
    drop(sock);
}

const GET: &[u8] = b"GET /metrics HTTP/1.1\r\nHost: localhost\r\n\r\n";

/// perform one client behaviour; never blocks for long
pub fn act(port: u16, c: Client) {
    let Some(mut s) = connect(port) else { return };
    match c {
        Client::WellFormedGet => {
            let _ = s.write_all(GET);
            let _ = read_response(&mut s, Duration::from_millis(500));
        }
        Client::CloseAfter0 => {}
        Client::CloseAfterPartial => {
            let _ = s.write_all(b"GET /me");
        }
        Client::CloseAfterGetLineOnly => {
            let _ = s.write_all(b"GET /metrics HTTP/1.1\r\nHost: local");
        }
        Client::Oversize2048 | Client::Oversize4096 => {
            let n = if c == Client::Oversize2048 { 2048 } else { 4096 };
            let mut b = b"GET /metrics HTTP/1.1\r\nX-Fill: ".to_vec();
            b.resize(n, b'a');
            let _ = s.write_all(&b);
            std::thread::sleep(Duration::from_millis(10));
        }
        Client::NonGet => {
            let _ = s.write_all(b"POST /metrics HTTP/1.1\r\nHost: localhost\r\nContent-Length: 0\r\n\r\n");
            let mut t = [0u8; 64];
            let _ = s.read(&mut t);
        }
        Client::SplitWrites => {
            for chunk in GET.chunks(7) {
                let _ = s.write_all(chunk);
                std::thread::sleep(Duration::from_millis(2));
            }
            let _ = read_response(&mut s, Duration::from_millis(500));
        }
        Client::ResetBeforeRequest => {
            reset(s);
            return;
        }
        Client::ResetAfterRequest => {
            let _ = s.write_all(GET);
            reset(s);
            return;
        }
        Client::CloseBeforeReadingResponse => {
            let _ = s.write_all(GET);
        }
    }
    drop(s);
}

#[derive(Debug)]
pub enum ProbeResult {
    Ok(u16),
    Exited(String),
    Spin(f64),
    Hang,
    BadResponse(String),
    /// no response, but no witness either
    Unexplained(String),
}

pub fn probe(exp: &mut Exporter, expect_data: bool) -> ProbeResult {
    // a healthy exporter answers within milliseconds
    for attempt in 0..2 {
        if let Some(st) = exp.exited() {
            return ProbeResult::Exited(st);
        }
        let deadline = if attempt == 0 { Duration::from_secs(2) } else { Duration::from_secs(6) };
        match http_get(exp.port, deadline) {
            Ok(r) => {
                let cl: Option<usize> = r.headers.iter().find(|h| h.0 == "content-length").and_then(|h| h.1.parse().ok());
                if cl != Some(r.body.len()) {
                    return ProbeResult::BadResponse(format!("status {} with Content-Length {cl:?} and {} body bytes", r.status, r.body.len()));
                }
                if expect_data && r.status != 200 {
                    return ProbeResult::BadResponse(format!("status {} although the observation socket serves valid data", r.status));
                }
                if !expect_data && !(400..600).contains(&r.status) {
                    return ProbeResult::BadResponse(format!("status {} although no data can be served", r.status));
                }
                return ProbeResult::Ok(r.status);
            }
            Err(e) => {
                std::thread::sleep(Duration::from_millis(20));
                if let Some(st) = exp.exited() {
                    return ProbeResult::Exited(st);
                }
                if let Some(load) = exp.cpu_load(Duration::from_millis(400)) {
                    if load >= 0.8 {
                        return ProbeResult::Spin(load);
                    }
                }
                if attempt == 1 {
                    return match e {
                        HttpError::Timeout | HttpError::Connect(_) => ProbeResult::Hang,
                        other => ProbeResult::Unexplained(format!("{other:?}")),
                    };
                }
            }
        }
    }
    ProbeResult::Unexplained("unreachable".into())
}

#[derive(Clone, Debug, serde::Serialize, serde::Deserialize)]
pub struct Seq {
    pub steps: Vec<(Client, Obs)>,
    pub probe_obs: Obs,
}

pub fn run(rep: &mut Report, tier: &str, seed: u64, shard: (u32, u32), replay: Option<&str>) {
    rep.rule = "sequences of client behaviours (well-formed GET, close after 0 / partial / header-less bytes, 2048 and 4096 bytes without terminator, non-GET verb, split writes, TCP reset before and after the request, close before reading the response) x observation-socket behaviours (valid JSON, truncated, invalid, refused, accept-then-close), each followed by a well-formed probe; every single behaviour x observation behaviour is enumerated, longer sequences (<= 4) are seeded samples (all pairs in thorough); the exporter is restarted after each wedging sequence; distinct = distinct sequences".into();
    rep.require(&["sequence_run", "probe_ok", "probe_ok_error_status"]);
    let valid_json: Vec<u8> = {
        // a valid state: take it from a live default instance
        let b = crate::drive::Build::new(0x42).build().expect("build");
        let inst = b.node.inst();
        let st = statime_linux::metrics::exporter::ObservableState {
            program: statime_linux::metrics::exporter::ProgramData { version: "t".into(), build_commit: "c".into(), build_commit_date: "d".into(), uptime_seconds: 1.0 },
            instance: statime_linux::observer::ObservableInstanceState {
                default_ds: inst.default_ds(),
                current_ds: inst.current_ds(None),
                parent_ds: inst.parent_ds(),
                time_properties_ds: inst.time_properties_ds(),
                path_trace_ds: inst.path_trace_ds(),
                port_ds: vec![b.node.port_ref(0).port_ds()],
            },
        };
        serde_json::to_vec(&st).unwrap()
    };
    let mut seqs: Vec<Seq> = vec![];
    if let Some(path) = replay {
        let v: serde_json::Value = serde_json::from_str(&std::fs::read_to_string(path).unwrap()).unwrap();
        if let Ok(s) = serde_json::from_value::<Seq>(v["case"].clone()) {
            seqs.push(s);
        }
    } else {
        let mut rng = StdRng::seed_from_u64(seed ^ 0xc20);
        for c in CLIENTS {
            for o in OBS {
                seqs.push(Seq { steps: vec![(c, o)], probe_obs: Obs::Valid });
            }
        }
        for o in OBS {
            seqs.push(Seq { steps: vec![(Client::WellFormedGet, o)], probe_obs: o });
        }
        if tier == "thorough" {
            for a in CLIENTS {
                for b in CLIENTS {
                    seqs.push(Seq { steps: vec![(a, OBS[rng.gen_range(0..5)]), (b, OBS[rng.gen_range(0..5)])], probe_obs: if rng.gen_bool(0.7) { Obs::Valid } else { OBS[rng.gen_range(0..5)] } });
                }
            }
        }
        let n_random = if tier == "thorough" { 600 } else { 60 };
        for _ in 0..n_random {
            let len = rng.gen_range(2..=4);
            seqs.push(Seq { steps: (0..len).map(|_| (CLIENTS[rng.gen_range(0..CLIENTS.len())], OBS[rng.gen_range(0..5)])).collect(), probe_obs: if rng.gen_bool(0.6) { Obs::Valid } else { OBS[rng.gen_range(0..5)] } });
        }
    }
    let mut ctx = match start_ctx(&format!("c20-{}", shard.0)) {
        Ok(c) => c,
        Err(e) => {
            rep.inconclusive(&format!("cannot start the exporter: {e}"));
            return;
        }
    };
    // behaviours confirmed wedging three times with the same witness are taken out of longer
    // sequences so that the remaining behaviours still get explored
    let mut wedge_count: std::collections::HashMap<(Client, String), u32> = Default::default();
    let t_start = Instant::now();
    let max_secs = if tier == "thorough" { 1500.0 } else { 150.0 };
    for (si, seq) in seqs.iter().enumerate() {
        if si as u32 % shard.1 != shard.0 {
            continue;
        }
        if t_start.elapsed().as_secs_f64() > max_secs {
            rep.observe("time budget reached before all sequences were run");
            break;
        }
        if seq.steps.len() > 1 && seq.steps.iter().any(|(c, _)| wedge_count.iter().any(|((wc, _), n)| wc == c && *n >= 3)) {
            rep.ev("sequence_skipped_known_wedger");
            continue;
        }
        let replay_v = serde_json::to_value(seq).unwrap();
        let mut first_wedger: Option<Client> = None;
        for (c, o) in &seq.steps {
            ctx.obs.set(obs_mode(*o, &valid_json));
            act(ctx.exp.port, *c);
            rep.ev(&format!("client_{c:?}"));
            rep.ev(&format!("obs_{o:?}"));
            std::thread::sleep(Duration::from_millis(3));
            if ctx.exp.exited().is_some() && first_wedger.is_none() {
                first_wedger = Some(*c);
            }
        }
        ctx.obs.set(obs_mode(seq.probe_obs, &valid_json));
        let expect_data = seq.probe_obs == Obs::Valid;
        let res = probe(&mut ctx.exp, expect_data);
        rep.ev("sequence_run");
        rep.evaluations += 1;
        rep.distinct_case(&format!("{seq:?}"));
        if si < 2 {
            rep.sample(replay_v.clone());
        }
        let last = seq.steps.last().map(|s| s.0).unwrap_or(Client::WellFormedGet);
        let culprit = first_wedger.unwrap_or(last);
        let mut restart = false;
        match res {
            ProbeResult::Ok(status) => {
                rep.ev("probe_ok");
                if status != 200 {
                    rep.ev("probe_ok_error_status");
                }
            }
            ProbeResult::Exited(st) => {
                *wedge_count.entry((culprit, "exit".into())).or_insert(0) += 1;
                rep.violation(&format!("C20|exporter-exited|after-{culprit:?}"), &format!("after {:?} the exporter process exited ({st}); the following well-formed request could not be served", seq.steps), replay_v.clone());
                restart = true;
            }
            ProbeResult::Spin(load) => {
                *wedge_count.entry((culprit, "spin".into())).or_insert(0) += 1;
                rep.violation(&format!("C20|exporter-spins|after-{culprit:?}"), &format!("after {:?} the exporter burns {:.0} % CPU and does not answer a well-formed request", seq.steps, load * 100.0), replay_v.clone());
                restart = true;
            }
            ProbeResult::Hang => {
                *wedge_count.entry((culprit, "hang".into())).or_insert(0) += 1;
                rep.violation(&format!("C20|exporter-hangs|after-{culprit:?}"), &format!("after {:?} the exporter is alive and idle but does not answer a well-formed request within 8 s", seq.steps), replay_v.clone());
                restart = true;
            }
            ProbeResult::BadResponse(what) => {
                rep.violation(&format!("C20|bad-response|probe-obs-{:?}", seq.probe_obs), &format!("after {:?}: {what}", seq.steps), replay_v.clone());
            }
            ProbeResult::Unexplained(what) => {
                rep.inconclusive(&format!("probe failed without a witness: {what}"));
                restart = true;
            }
        }
        if restart {
            let dir = ctx.exp.dir.clone();
            drop(ctx);
            let _ = std::fs::remove_dir_all(&dir);
            ctx = match start_ctx(&format!("c20-{}-{si}", shard.0)) {
                Ok(c) => c,
                Err(e) => {
                    rep.inconclusive(&format!("cannot restart the exporter: {e}"));
                    return;
                }
            };
        }
    }
    let _ = std::fs::remove_dir_all(&ctx.exp.dir);
    let _ = json!(null);
}
