//! C20 - the metrics exporter cannot be wedged by its clients.
//! Oracle: black-box subprocess harness: scripted client behaviours x observation-socket
//! behaviours, each sequence followed by a well-formed probe; a failure needs a witness
//! (process exit status, CPU spin measured from /proc, or idle hang after an extended deadline).

use std::io::{Read, Write};
use std::net::TcpStream;
use std::time::{Duration, Instant};

use rand::rngs::StdRng;
use rand::{Rng, SeedableRng};
use serde_json::json;

use crate::c19::start_ctx;
use crate::exporter::*;
use crate::report::*;

#[derive(Clone, Copy, Debug, PartialEq, Eq, Hash, serde::Serialize, serde::Deserialize)]
pub enum Client {
    WellFormedGet,
    CloseAfter0,
    CloseAfterPartial,
    CloseAfterGetLineOnly,
    Oversize2048,
    Oversize4096,
    NonGet,
    SplitWrites,
    ResetBeforeRequest,
    ResetAfterRequest,
    CloseBeforeReadingResponse,
    /// the request arrives in two segments, the cut 1 / 2 / 3 octets into the CRLFCRLF terminator
    SplitInTerminator1,
    SplitInTerminator2,
    SplitInTerminator3,
    /// one octet per segment
    SplitBytewise,
    /// complete non-GET requests with unusual method tokens: invalid UTF-8, a long multi-byte verb,
    /// a very long ASCII verb, an empty request line
    NonGetBinary,
    NonGetLongUnicode,
    NonGetLongAscii,
    NonGetEmptyLine,
    /// POST announcing a body of 100 octets, delivering 10 (or none) and closing in an orderly way
    NonGetShortBody,
    NonGetNoBody,
}

pub const CLIENTS: [Client; 21] = [
    Client::WellFormedGet,
    Client::CloseAfter0,
    Client::CloseAfterPartial,
    Client::CloseAfterGetLineOnly,
    Client::Oversize2048,
    Client::Oversize4096,
    Client::NonGet,
    Client::SplitWrites,
    Client::ResetBeforeRequest,
    Client::ResetAfterRequest,
    Client::CloseBeforeReadingResponse,
    Client::SplitInTerminator1,
    Client::SplitInTerminator2,
    Client::SplitInTerminator3,
    Client::SplitBytewise,
    Client::NonGetBinary,
    Client::NonGetLongUnicode,
    Client::NonGetLongAscii,
    Client::NonGetEmptyLine,
    Client::NonGetShortBody,
    Client::NonGetNoBody,
];

#[derive(Clone, Copy, Debug, PartialEq, Eq, Hash, serde::Serialize, serde::Deserialize)]
pub enum Obs {
    Valid,
    Truncated,
    Invalid,
    Refused,
    AcceptThenClose,
    /// the complete state, after which the peer keeps the connection open
    ValidLinger,
    /// a complete, well-shaped state whose numbers are unusual (negative / huge uptime)
    ValidOddValues,
}

pub const OBS: [Obs; 7] = [Obs::Valid, Obs::Truncated, Obs::Invalid, Obs::Refused, Obs::AcceptThenClose, Obs::ValidLinger, Obs::ValidOddValues];

fn obs_mode(o: Obs, valid: &[u8]) -> ObsMode {
    match o {
        Obs::ValidOddValues => unreachable!("resolved by the caller"),
        Obs::Valid => ObsMode::Valid(valid.to_vec()),
        Obs::Truncated => ObsMode::Truncated(valid.to_vec()),
        Obs::Invalid => ObsMode::Invalid,
        Obs::Refused => ObsMode::Refuse,
        Obs::AcceptThenClose => ObsMode::AcceptThenClose,
        Obs::ValidLinger => ObsMode::ValidLinger(valid.to_vec()),
    }
}

fn connect(port: u16) -> Option<TcpStream> {
    let s = TcpStream::connect_timeout(&format!("127.0.0.1:{port}").parse().unwrap(), Duration::from_millis(500)).ok()?;
    s.set_read_timeout(Some(Duration::from_millis(300))).ok();
    s.set_write_timeout(Some(Duration::from_millis(300))).ok();
    Some(s)
}

fn reset(s: TcpStream) {
    let sock = socket2::Socket::from(s);
    let _ = sock.set_linger(Some(Duration::from_secs(0)));
    drop(sock);
}

const GET: &[u8] = b"GET /metrics HTTP/1.1\r\nHost: localhost\r\n\r\n";

/// how long a client that sent a complete well-formed request keeps its connection open waiting
/// for the answer (a healthy exporter answers within milliseconds)
const ANSWER_DEADLINE: Duration = Duration::from_secs(6);

/// write the request in the given pieces, pausing so that each piece is its own TCP segment and
/// its own read() on the server side
fn write_pieces(s: &mut TcpStream, pieces: &[&[u8]], pause: Duration) {
    let _ = s.set_nodelay(true);
    for (i, p) in pieces.iter().enumerate() {
        let _ = s.write_all(p);
        let _ = s.flush();
        if i + 1 < pieces.len() {
            std::thread::sleep(pause);
        }
    }
}

/// perform one client behaviour; never blocks for long. For behaviours that deliver a complete
/// well-formed request and wait for the reply: Some(whether a complete response arrived).
pub fn act(port: u16, c: Client) -> Option<bool> {
    let mut s = connect(port)?;
    let mut answered = None;
    match c {
        Client::WellFormedGet => {
            let _ = s.write_all(GET);
            answered = Some(read_response(&mut s, ANSWER_DEADLINE).is_ok());
        }
        Client::SplitInTerminator1 | Client::SplitInTerminator2 | Client::SplitInTerminator3 => {
            let k = match c {
                Client::SplitInTerminator1 => 1,
                Client::SplitInTerminator2 => 2,
                _ => 3,
            };
            let cut = GET.len() - 4 + k;
            write_pieces(&mut s, &[&GET[..cut], &GET[cut..]], Duration::from_millis(40));
            answered = Some(read_response(&mut s, ANSWER_DEADLINE).is_ok());
        }
        Client::SplitBytewise => {
            let pieces: Vec<&[u8]> = GET.chunks(1).collect();
            write_pieces(&mut s, &pieces, Duration::from_millis(3));
            answered = Some(read_response(&mut s, ANSWER_DEADLINE).is_ok());
        }
        Client::CloseAfter0 => {}
        Client::CloseAfterPartial => {
            let _ = s.write_all(b"GET /me");
        }
        Client::CloseAfterGetLineOnly => {
            let _ = s.write_all(b"GET /metrics HTTP/1.1\r\nHost: local");
        }
        Client::Oversize2048 | Client::Oversize4096 => {
            let n = if c == Client::Oversize2048 { 2048 } else { 4096 };
            let mut b = b"GET /metrics HTTP/1.1\r\nX-Fill: ".to_vec();
            b.resize(n, b'a');
            let _ = s.write_all(&b);
            std::thread::sleep(Duration::from_millis(10));
        }
        Client::NonGetBinary | Client::NonGetLongUnicode | Client::NonGetLongAscii | Client::NonGetEmptyLine => {
            let req: Vec<u8> = match c {
                Client::NonGetBinary => b"\xff\xfe\xfd\xfc\xfb\xfa\xf9\xf8\x80\x81\xc3\x28 /metrics HTTP/1.1\r\nHost: x\r\n\r\n".to_vec(),
                Client::NonGetLongUnicode => "\u{6e2c}\u{8a66}\u{6e2c}\u{8a66}\u{6e2c}\u{8a66}\u{6e2c}\u{8a66}\u{1f600}\u{1f600} /metrics HTTP/1.1\r\n\r\n".as_bytes().to_vec(),
                Client::NonGetLongAscii => {
                    let mut v = vec![b'Q'; 900];
                    v.extend_from_slice(b" /metrics HTTP/1.1\r\n\r\n");
                    v
                }
                _ => b"\r\n\r\n".to_vec(),
            };
            let _ = s.write_all(&req);
            let mut t = [0u8; 64];
            let _ = s.read(&mut t);
        }
        Client::NonGetShortBody | Client::NonGetNoBody => {
            let _ = s.write_all(b"POST /metrics HTTP/1.1\r\nHost: localhost\r\nContent-Type: text/plain\r\nContent-Length: 100\r\n\r\n");
            if c == Client::NonGetShortBody {
                std::thread::sleep(Duration::from_millis(5));
                let _ = s.write_all(b"0123456789");
            }
            // FIN, not a reset: the rest of the announced body never comes
            let _ = s.shutdown(std::net::Shutdown::Write);
            let mut t = [0u8; 256];
            let _ = s.read(&mut t);
        }
        Client::NonGet => {
            let _ = s.write_all(b"POST /metrics HTTP/1.1\r\nHost: localhost\r\nContent-Length: 0\r\n\r\n");
            let mut t = [0u8; 64];
            let _ = s.read(&mut t);
        }
        Client::SplitWrites => {
            let pieces: Vec<&[u8]> = GET.chunks(7).collect();
            write_pieces(&mut s, &pieces, Duration::from_millis(5));
            answered = Some(read_response(&mut s, ANSWER_DEADLINE).is_ok());
        }
        Client::ResetBeforeRequest => {
            reset(s);
            return None;
        }
        Client::ResetAfterRequest => {
            let _ = s.write_all(GET);
            reset(s);
            return None;
        }
        Client::CloseBeforeReadingResponse => {
            let _ = s.write_all(GET);
        }
    }
    drop(s);
    answered
}

#[derive(Debug)]
pub enum ProbeResult {
    Ok(u16),
    Exited(String),
    Spin(f64),
    Hang,
    BadResponse(String),
    /// no response, but no witness either
    Unexplained(String),
}

pub fn probe(exp: &mut Exporter, expect_data: bool) -> ProbeResult {
    // a healthy exporter answers within milliseconds
    for attempt in 0..2 {
        if let Some(st) = exp.exited() {
            return ProbeResult::Exited(st);
        }
        let deadline = if attempt == 0 { Duration::from_secs(2) } else { Duration::from_secs(6) };
        match http_get(exp.port, deadline) {
            Ok(r) => {
                let cl: Option<usize> = r.headers.iter().find(|h| h.0 == "content-length").and_then(|h| h.1.parse().ok());
                if cl != Some(r.body.len()) {
                    return ProbeResult::BadResponse(format!("status {} with Content-Length {cl:?} and {} body bytes", r.status, r.body.len()));
                }
                if expect_data && r.status != 200 {
                    return ProbeResult::BadResponse(format!("status {} although the observation socket serves valid data", r.status));
                }
                if !expect_data && !(400..600).contains(&r.status) {
                    return ProbeResult::BadResponse(format!("status {} although no data can be served", r.status));
                }
                return ProbeResult::Ok(r.status);
            }
            Err(e) => {
                std::thread::sleep(Duration::from_millis(20));
                if let Some(st) = exp.exited() {
                    return ProbeResult::Exited(st);
                }
                if let Some(load) = exp.cpu_load(Duration::from_millis(400)) {
                    if load >= 0.8 {
                        return ProbeResult::Spin(load);
                    }
                }
                if attempt == 1 {
                    return match e {
                        HttpError::Timeout | HttpError::Connect(_) => ProbeResult::Hang,
                        other => ProbeResult::Unexplained(format!("{other:?}")),
                    };
                }
            }
        }
    }
    ProbeResult::Unexplained("unreachable".into())
}

#[derive(Clone, Debug, serde::Serialize, serde::Deserialize)]
pub struct Seq {
    pub steps: Vec<(Client, Obs)>,
    pub probe_obs: Obs,
}

pub fn run(rep: &mut Report, tier: &str, seed: u64, shard: (u32, u32), replay: Option<&str>) {
    rep.rule = "sequences of client behaviours (well-formed GET, close after 0 / partial / header-less bytes, 2048 and 4096 bytes without terminator, non-GET requests (POST, invalid-UTF-8 / long multi-byte / 900-octet ASCII method tokens, empty request line), split writes (7-octet pieces, one octet per segment, and two segments cut 1/2/3 octets into the CRLFCRLF terminator; each must be answered while the client waits), TCP reset before and after the request, close before reading the response) x observation-socket behaviours (valid JSON, truncated, invalid, refused, accept-then-close, valid JSON after which the peer keeps the connection open, valid JSON with a negative / huge uptime), each followed by a well-formed probe; every single behaviour x observation behaviour is enumerated, longer sequences (<= 4) are seeded samples (all pairs in thorough); the exporter is restarted after each wedging sequence; distinct = distinct sequences".into();
    rep.require(&["sequence_run", "probe_ok", "probe_ok_error_status", "well_formed_request_answer_checked"]);
    // a valid state: the instance part taken from a live default instance, the document put
    // together on the wire format (the contract between observer.rs and the exporter)
    let state_json = |uptime: f64| -> Vec<u8> {
        let b = crate::drive::Build::new(0x42).build().expect("build");
        let inst = b.node.inst();
        let instance = statime_linux::observer::ObservableInstanceState {
            default_ds: inst.default_ds(),
            current_ds: inst.current_ds(None),
            parent_ds: inst.parent_ds(),
            time_properties_ds: inst.time_properties_ds(),
            path_trace_ds: inst.path_trace_ds(),
            port_ds: vec![b.node.port_ref(0).port_ds()],
        };
        // serde_json writes 1e20 etc. as numbers the exporter's f64 field accepts
        serde_json::to_vec(&json!({"program": {"version": "t", "build_commit": "c", "build_commit_date": "d", "uptime_seconds": uptime}, "instance": serde_json::to_value(&instance).unwrap()})).unwrap()
    };
    let valid_json: Vec<u8> = state_json(1.0);
    let odd_json: Vec<Vec<u8>> = [-1.0f64, -0.000001, 1e20, 1.7e308, 0.0].iter().map(|u| state_json(*u)).collect();
    let mut seqs: Vec<Seq> = vec![];
    if let Some(path) = replay {
        let v: serde_json::Value = serde_json::from_str(&std::fs::read_to_string(path).unwrap()).unwrap();
        if let Ok(s) = serde_json::from_value::<Seq>(v["case"].clone()) {
            seqs.push(s);
        }
    } else {
        let mut rng = StdRng::seed_from_u64(seed ^ 0xc20);
        for c in CLIENTS {
            for o in OBS {
                seqs.push(Seq { steps: vec![(c, o)], probe_obs: Obs::Valid });
            }
        }
        for o in OBS {
            seqs.push(Seq { steps: vec![(Client::WellFormedGet, o)], probe_obs: o });
        }
        if tier == "thorough" {
            for a in CLIENTS {
                for b in CLIENTS {
                    seqs.push(Seq { steps: vec![(a, OBS[rng.gen_range(0..OBS.len())]), (b, OBS[rng.gen_range(0..OBS.len())])], probe_obs: if rng.gen_bool(0.7) { Obs::Valid } else { OBS[rng.gen_range(0..OBS.len())] } });
                }
            }
        }
        let n_random = if tier == "thorough" { 600 } else { 60 };
        for _ in 0..n_random {
            let len = rng.gen_range(2..=4);
            seqs.push(Seq { steps: (0..len).map(|_| (CLIENTS[rng.gen_range(0..CLIENTS.len())], OBS[rng.gen_range(0..OBS.len())])).collect(), probe_obs: if rng.gen_bool(0.6) { Obs::Valid } else { OBS[rng.gen_range(0..OBS.len())] } });
        }
    }
    // the exporter is started before the daemon: the observation socket does not exist yet (every
    // connect is refused), later it appears. The exporter must come up, answer with an error status
    // meanwhile, and serve data once the socket is there.
    let replay_is_startup = replay.and_then(|p| std::fs::read_to_string(p).ok()).map_or(false, |t| t.contains("\"start_up\""));
    if (replay.is_none() || replay_is_startup) && shard.0 == 0 {
        for absent_kind in ["no-socket-file", "stale-socket-file"] {
            let dir = scratch_dir(&format!("c20-late-{}-{absent_kind}", std::process::id()));
            let sock = dir.join("obs.sock");
            if absent_kind == "stale-socket-file" {
                // a socket file nobody listens on (left behind by a daemon that was killed)
                drop(std::os::unix::net::UnixListener::bind(&sock));
            }
            let replay_v = json!({"property": "C20", "case": {"start_up": absent_kind}});
            rep.evaluations += 1;
            rep.distinct_case(&format!("start-up|{absent_kind}"));
            match Exporter::start(&dir, &sock) {
                Err(e) if e.contains("exited during start-up") => {
                    rep.violation(&format!("C20|exporter-exited|observation-socket-refused-at-start|{absent_kind}"), &format!("exporter started while the observation socket refuses connections ({absent_kind}): {e}; well-formed requests cannot be served"), replay_v);
                }
                Err(e) => rep.inconclusive(&format!("start-up phase: {e}")),
                Ok(mut exp) => {
                    let mut bad = None;
                    for _ in 0..3 {
                        match http_get(exp.port, Duration::from_secs(8)) {
                            Ok(r) if r.status >= 500 => rep.ev("start_up_refused_probe_error_status"),
                            Ok(r) => bad = Some(format!("status {} while the observation socket refuses connections", r.status)),
                            Err(e) => {
                                if let Some(st) = exp.exited() {
                                    rep.violation(&format!("C20|exporter-exited|observation-socket-refused-at-start|{absent_kind}"), &format!("exporter exited ({st}) when asked for metrics while the observation socket refuses connections"), replay_v.clone());
                                } else {
                                    rep.inconclusive(&format!("start-up phase probe failed without a witness: {e:?}"));
                                }
                                bad = None;
                                break;
                            }
                        }
                    }
                    if let Some(b) = bad {
                        rep.violation("C20|bad-response|probe-obs-Refused", &format!("start-up phase: {b}"), replay_v.clone());
                    }
                    // the daemon comes up
                    let obs = ObsServer::start(sock.clone(), ObsMode::Valid(valid_json.clone()));
                    if exp.exited().is_none() {
                        match http_get(exp.port, Duration::from_secs(8)) {
                            Ok(r) if r.status == 200 => rep.ev("start_up_socket_appeared_probe_ok"),
                            Ok(r) => rep.violation(&format!("C20|late-socket-not-served|{absent_kind}"), &format!("the observation socket appeared after the exporter had started, a well-formed request still gets status {}", r.status), replay_v.clone()),
                            Err(e) => {
                                if let Some(st) = exp.exited() {
                                    rep.violation(&format!("C20|exporter-exited|observation-socket-refused-at-start|{absent_kind}"), &format!("exporter exited ({st}) after the observation socket appeared"), replay_v.clone());
                                } else {
                                    rep.inconclusive(&format!("start-up phase probe failed without a witness: {e:?}"));
                                }
                            }
                        }
                    }
                    drop(obs);
                    drop(exp);
                }
            }
            let _ = std::fs::remove_dir_all(&dir);
        }
    }
    let mut ctx = match start_ctx(&format!("c20-{}", shard.0)) {
        Ok(c) => c,
        Err(e) => {
            rep.inconclusive(&format!("cannot start the exporter: {e}"));
            return;
        }
    };
    // behaviours confirmed wedging three times with the same witness are taken out of longer
    // sequences so that the remaining behaviours still get explored
    let mut wedge_count: std::collections::HashMap<(Client, String), u32> = Default::default();
    let t_start = Instant::now();
    let max_secs = if tier == "thorough" { 1500.0 } else { 150.0 };
    let mut odd_i = 0usize;
    for (si, seq) in seqs.iter().enumerate() {
        if si as u32 % shard.1 != shard.0 {
            continue;
        }
        if t_start.elapsed().as_secs_f64() > max_secs {
            rep.observe("time budget reached before all sequences were run");
            break;
        }
        if seq.steps.len() > 1 && seq.steps.iter().any(|(c, _)| wedge_count.iter().any(|((wc, _), n)| wc == c && *n >= 3)) {
            rep.ev("sequence_skipped_known_wedger");
            continue;
        }
        let replay_v = serde_json::to_value(seq).unwrap();
        let mut first_wedger: Option<Client> = None;
        for (c, o) in &seq.steps {
            odd_i += 1;
            ctx.obs.set(if *o == Obs::ValidOddValues { ObsMode::Valid(odd_json[odd_i % odd_json.len()].clone()) } else { obs_mode(*o, &valid_json) });
            let answered = act(ctx.exp.port, *c);
            rep.ev(&format!("client_{c:?}"));
            if let Some(a) = answered {
                rep.ev("well_formed_request_answer_checked");
                if !a && ctx.exp.exited().is_none() {
                    rep.violation(
                        &format!("C20|well-formed-request-unanswered|{c:?}"),
                        &format!("a complete well-formed GET delivered as {c:?} (observation socket: {o:?}) got no complete HTTP response within {} s although the client kept the connection open; the exporter is still running", ANSWER_DEADLINE.as_secs()),
                        replay_v.clone(),
                    );
                }
            }
            rep.ev(&format!("obs_{o:?}"));
            std::thread::sleep(Duration::from_millis(3));
            if ctx.exp.exited().is_some() && first_wedger.is_none() {
                first_wedger = Some(*c);
            }
        }
        ctx.obs.set(if seq.probe_obs == Obs::ValidOddValues { ObsMode::Valid(odd_json[odd_i % odd_json.len()].clone()) } else { obs_mode(seq.probe_obs, &valid_json) });
        let expect_data = matches!(seq.probe_obs, Obs::Valid | Obs::ValidLinger | Obs::ValidOddValues);
        let res = probe(&mut ctx.exp, expect_data);
        rep.ev("sequence_run");
        rep.evaluations += 1;
        rep.distinct_case(&format!("{seq:?}"));
        if si < 2 {
            rep.sample(replay_v.clone());
        }
        let last = seq.steps.last().map(|s| s.0).unwrap_or(Client::WellFormedGet);
        let culprit = first_wedger.unwrap_or(last);
        let mut restart = false;
        match res {
            ProbeResult::Ok(status) => {
                rep.ev("probe_ok");
                if status != 200 {
                    rep.ev("probe_ok_error_status");
                }
            }
            ProbeResult::Exited(st) => {
                *wedge_count.entry((culprit, "exit".into())).or_insert(0) += 1;
                rep.violation(&format!("C20|exporter-exited|after-{culprit:?}"), &format!("after {:?} the exporter process exited ({st}); the following well-formed request could not be served", seq.steps), replay_v.clone());
                restart = true;
            }
            ProbeResult::Spin(load) => {
                *wedge_count.entry((culprit, "spin".into())).or_insert(0) += 1;
                rep.violation(&format!("C20|exporter-spins|after-{culprit:?}"), &format!("after {:?} the exporter burns {:.0} % CPU and does not answer a well-formed request", seq.steps, load * 100.0), replay_v.clone());
                restart = true;
            }
            ProbeResult::Hang => {
                *wedge_count.entry((culprit, "hang".into())).or_insert(0) += 1;
                rep.violation(&format!("C20|exporter-hangs|after-{culprit:?}"), &format!("after {:?} the exporter is alive and idle but does not answer a well-formed request within 8 s", seq.steps), replay_v.clone());
                restart = true;
            }
            ProbeResult::BadResponse(what) => {
                rep.violation(&format!("C20|bad-response|probe-obs-{:?}", seq.probe_obs), &format!("after {:?}: {what}", seq.steps), replay_v.clone());
            }
            ProbeResult::Unexplained(what) => {
                rep.inconclusive(&format!("probe failed without a witness: {what}"));
                restart = true;
            }
        }
        if restart {
            let dir = ctx.exp.dir.clone();
            drop(ctx);
            let _ = std::fs::remove_dir_all(&dir);
            ctx = match start_ctx(&format!("c20-{}-{si}", shard.0)) {
                Ok(c) => c,
                Err(e) => {
                    rep.inconclusive(&format!("cannot restart the exporter: {e}"));
                    return;
                }
            };
        }
    }
    let _ = std::fs::remove_dir_all(&ctx.exp.dir);
    let _ = json!(null);
}
