//! Black-box harness around the real `statime-metrics-exporter` binary: subprocess control, a
//! scriptable observation socket, a raw HTTP client and an independent parser of the
//! OpenMetrics/Prometheus text format.

use std::io::{Read, Write};
use std::net::{TcpListener, TcpStream};
use std::os::unix::net::UnixListener;
use std::path::PathBuf;
use std::process::{Child, Command, Stdio};
use std::sync::atomic::{AtomicBool, AtomicU64, Ordering};
use std::sync::{Arc, Mutex};
use std::time::{Duration, Instant};

#[derive(Clone, Debug, PartialEq)]
pub enum ObsMode {
    /// serve these bytes in one write, then close (what observer.rs does)
    Valid(Vec<u8>),
    /// like Valid, but only after a pause (milliseconds): the exporter waits on the observation
    /// socket meanwhile
    DelayedValid(Vec<u8>, u64),
    /// serve the state completely, then keep the connection open (for 30 s) instead of closing it
    ValidLinger(Vec<u8>),
    /// serve only the first half
    Truncated(Vec<u8>),
    Invalid,
    AcceptThenClose,
    /// no listener at all (connect is refused)
    Refuse,
}

pub struct ObsServer {
    pub mode: Arc<Mutex<ObsMode>>,
    /// generation of the mode last set / last put into effect (listener bound or removed) by
    /// the server thread: `set` returns only when the two agree
    gen: Arc<AtomicU64>,
    applied: Arc<AtomicU64>,
    pub path: PathBuf,
    stop: Arc<AtomicBool>,
    pub served: Arc<AtomicU64>,
    handle: Option<std::thread::JoinHandle<()>>,
}

impl ObsServer {
    pub fn start(path: PathBuf, mode: ObsMode) -> ObsServer {
        let _ = std::fs::remove_file(&path);
        let mode = Arc::new(Mutex::new(mode));
        let stop = Arc::new(AtomicBool::new(false));
        let served = Arc::new(AtomicU64::new(0));
        let gen = Arc::new(AtomicU64::new(1));
        let applied = Arc::new(AtomicU64::new(0));
        let (m2, s2, p2, sv, g2, a2) = (mode.clone(), stop.clone(), path.clone(), served.clone(), gen.clone(), applied.clone());
        let handle = std::thread::spawn(move || {
            let mut listener: Option<UnixListener> = None;
            // connections kept open after the state was written (ValidLinger)
            let mut held: Vec<(std::time::Instant, std::os::unix::net::UnixStream)> = vec![];
            while !s2.load(Ordering::Relaxed) {
                held.retain(|(t, _)| t.elapsed() < Duration::from_secs(30));
                let (mode, g) = {
                    let m = m2.lock().unwrap();
                    (m.clone(), g2.load(Ordering::SeqCst))
                };
                if mode == ObsMode::Refuse {
                    if listener.is_some() {
                        listener = None;
                        let _ = std::fs::remove_file(&p2);
                    }
                    a2.fetch_max(g, Ordering::SeqCst);
                    std::thread::sleep(Duration::from_millis(2));
                    continue;
                }
                if listener.is_none() {
                    let _ = std::fs::remove_file(&p2);
                    match UnixListener::bind(&p2) {
                        Ok(l) => {
                            l.set_nonblocking(true).ok();
                            listener = Some(l);
                        }
                        Err(_) => {
                            std::thread::sleep(Duration::from_millis(5));
                            continue;
                        }
                    }
                }
                a2.fetch_max(g, Ordering::SeqCst);
                match listener.as_ref().unwrap().accept() {
                    Ok((mut s, _)) => {
                        s.set_nonblocking(false).ok();
                        sv.fetch_add(1, Ordering::Relaxed);
                        let mode = m2.lock().unwrap().clone();
                        match mode {
                            ObsMode::Valid(b) => {
                                let _ = s.write_all(&b);
                            }
                            ObsMode::DelayedValid(b, ms) => {
                                std::thread::sleep(Duration::from_millis(ms));
                                let _ = s.write_all(&b);
                            }
                            ObsMode::ValidLinger(b) => {
                                let _ = s.write_all(&b);
                                let _ = s.flush();
                                held.push((std::time::Instant::now(), s));
                                continue;
                            }
                            ObsMode::Truncated(b) => {
                                let _ = s.write_all(&b[..b.len() / 2]);
                            }
                            ObsMode::Invalid => {
                                let _ = s.write_all(b"{\"program\": 12, nonsense");
                            }
                            ObsMode::AcceptThenClose | ObsMode::Refuse => {}
                        }
                        drop(s);
                    }
                    Err(_) => std::thread::sleep(Duration::from_millis(1)),
                }
            }
            let _ = std::fs::remove_file(&p2);
        });
        let s = ObsServer { mode, gen, applied, path, stop, served, handle: Some(handle) };
        s.wait_applied(1);
        s
    }
    fn wait_applied(&self, g: u64) {
        // no verdict depends on this bound: it only keeps a dead server thread from hanging the
        // harness (the run then fails on its probes and the watchdog, not silently)
        let t0 = std::time::Instant::now();
        while self.applied.load(Ordering::SeqCst) < g && t0.elapsed() < Duration::from_secs(30) {
            std::thread::sleep(Duration::from_millis(1));
        }
    }
    pub fn set(&self, m: ObsMode) {
        let g = {
            let mut mode = self.mode.lock().unwrap();
            *mode = m;
            self.gen.fetch_add(1, Ordering::SeqCst) + 1
        };
        // the server thread has bound (or removed) its listener for this mode when it
        // acknowledges the generation: no fixed sleep, the machine may be loaded
        self.wait_applied(g);
    }
}

impl Drop for ObsServer {
    fn drop(&mut self) {
        self.stop.store(true, Ordering::Relaxed);
        if let Some(h) = self.handle.take() {
            let _ = h.join();
        }
    }
}

pub struct Exporter {
    pub child: Child,
    pub port: u16,
    pub dir: PathBuf,
}

pub fn exporter_path() -> PathBuf {
    std::env::var("VP_EXPORTER").map(PathBuf::from).unwrap_or_else(|_| PathBuf::from("/verif/target/repo/debug/statime-metrics-exporter"))
}

pub fn scratch_dir(tag: &str) -> PathBuf {
    let base = std::env::var("VP_SCRATCH").map(PathBuf::from).unwrap_or_else(|_| PathBuf::from("/verif/target/scratch"));
    let d = base.join(format!("{tag}-{}", std::process::id()));
    let _ = std::fs::create_dir_all(&d);
    d
}

impl Exporter {
    pub fn start(dir: &PathBuf, obs_path: &PathBuf) -> Result<Exporter, String> {
        let port = {
            let l = TcpListener::bind("127.0.0.1:0").map_err(|e| e.to_string())?;
            l.local_addr().map_err(|e| e.to_string())?.port()
        };
        let cfg = dir.join(format!("exporter-{port}.toml"));
        std::fs::write(
            &cfg,
            format!("loglevel = \"error\"\n[[port]]\ninterface = \"lo\"\n[observability]\nobservation-path = \"{}\"\nmetrics-exporter-listen = \"127.0.0.1:{port}\"\n", obs_path.display()),
        )
        .map_err(|e| e.to_string())?;
        let exe = exporter_path();
        let child = Command::new(&exe).arg("-c").arg(&cfg).stdin(Stdio::null()).stdout(Stdio::null()).stderr(Stdio::null()).spawn().map_err(|e| format!("cannot start {}: {e}", exe.display()))?;
        let mut e = Exporter { child, port, dir: dir.clone() };
        // wait until it accepts connections
        let t0 = Instant::now();
        loop {
            if let Ok(Some(st)) = e.child.try_wait() {
                return Err(format!("exporter exited during start-up: {st}"));
            }
            // readiness is probed with a complete well-formed request: a client that merely connects
            // and goes away is one of the behaviours under test (C20), not something to do here
            if http_get(port, Duration::from_millis(500)).is_ok() {
                break;
            }
            if t0.elapsed() > Duration::from_secs(10) {
                let _ = e.child.kill();
                return Err("exporter did not start listening within 10 s".into());
            }
            std::thread::sleep(Duration::from_millis(10));
        }
        Ok(e)
    }
    pub fn exited(&mut self) -> Option<String> {
        match self.child.try_wait() {
            Ok(Some(st)) => Some(format!("{st}")),
            _ => None,
        }
    }
    /// CPU time (utime+stime, clock ticks) of the exporter process
    pub fn cpu_ticks(&self) -> Option<u64> {
        let s = std::fs::read_to_string(format!("/proc/{}/stat", self.child.id())).ok()?;
        let rest = &s[s.rfind(')')? + 2..];
        let f: Vec<&str> = rest.split(' ').collect();
        Some(f.get(11)?.parse::<u64>().ok()? + f.get(12)?.parse::<u64>().ok()?)
    }
    /// fraction of one CPU the process burns over `window`
    pub fn cpu_load(&self, window: Duration) -> Option<f64> {
        let a = self.cpu_ticks()?;
        let t0 = Instant::now();
        std::thread::sleep(window);
        let b = self.cpu_ticks()?;
        let ticks_per_s = 100.0;
        Some((b - a) as f64 / ticks_per_s / t0.elapsed().as_secs_f64())
    }
}

impl Drop for Exporter {
    fn drop(&mut self) {
        let _ = self.child.kill();
        let _ = self.child.wait();
    }
}

#[derive(Clone, Debug)]
pub struct HttpResponse {
    pub status: u16,
    pub headers: Vec<(String, String)>,
    pub body: Vec<u8>,
    pub raw_len: usize,
}

#[derive(Clone, Debug, PartialEq)]
pub enum HttpError {
    Connect(String),
    Timeout,
    Closed(usize),
    Malformed(String),
}

pub fn http_get(port: u16, timeout: Duration) -> Result<HttpResponse, HttpError> {
    let addr = format!("127.0.0.1:{port}").parse().unwrap();
    let mut s = TcpStream::connect_timeout(&addr, timeout).map_err(|e| HttpError::Connect(e.to_string()))?;
    s.set_read_timeout(Some(timeout)).ok();
    s.set_write_timeout(Some(timeout)).ok();
    s.write_all(b"GET /metrics HTTP/1.1\r\nHost: localhost\r\nUser-Agent: vp\r\nAccept: */*\r\n\r\n").map_err(|e| HttpError::Connect(e.to_string()))?;
    read_response(&mut s, timeout)
}

pub fn read_response(s: &mut TcpStream, timeout: Duration) -> Result<HttpResponse, HttpError> {
    let t0 = Instant::now();
    let mut buf = vec![];
    let mut tmp = [0u8; 8192];
    loop {
        // complete?
        if let Some(h_end) = buf.windows(4).position(|w| w == b"\r\n\r\n") {
            let head = String::from_utf8_lossy(&buf[..h_end]).to_string();
            let mut lines = head.split("\r\n");
            let status_line = lines.next().unwrap_or("");
            let status: u16 = status_line.split(' ').nth(1).and_then(|x| x.parse().ok()).ok_or_else(|| HttpError::Malformed(format!("status line '{status_line}'")))?;
            let headers: Vec<(String, String)> = lines.filter_map(|l| l.split_once(':').map(|(a, b)| (a.trim().to_ascii_lowercase(), b.trim().to_string()))).collect();
            let cl: Option<usize> = headers.iter().find(|h| h.0 == "content-length").and_then(|h| h.1.parse().ok());
            if let Some(cl) = cl {
                if buf.len() >= h_end + 4 + cl {
                    // wait briefly for surplus bytes (content-length too small?)
                    s.set_read_timeout(Some(Duration::from_millis(30))).ok();
                    if let Ok(n) = s.read(&mut tmp) {
                        buf.extend_from_slice(&tmp[..n]);
                    }
                    return Ok(HttpResponse { status, headers, body: buf[h_end + 4..].to_vec(), raw_len: buf.len() });
                }
            }
        }
        if t0.elapsed() > timeout {
            return Err(HttpError::Timeout);
        }
        match s.read(&mut tmp) {
            Ok(0) => {
                // closed: return what we have if the header is complete
                if let Some(h_end) = buf.windows(4).position(|w| w == b"\r\n\r\n") {
                    let head = String::from_utf8_lossy(&buf[..h_end]).to_string();
                    let mut lines = head.split("\r\n");
                    let status: u16 = lines.next().unwrap_or("").split(' ').nth(1).and_then(|x| x.parse().ok()).unwrap_or(0);
                    let headers: Vec<(String, String)> = lines.filter_map(|l| l.split_once(':').map(|(a, b)| (a.trim().to_ascii_lowercase(), b.trim().to_string()))).collect();
                    return Ok(HttpResponse { status, headers, body: buf[h_end + 4..].to_vec(), raw_len: buf.len() });
                }
                return Err(HttpError::Closed(buf.len()));
            }
            Ok(n) => buf.extend_from_slice(&tmp[..n]),
            Err(e) if e.kind() == std::io::ErrorKind::WouldBlock || e.kind() == std::io::ErrorKind::TimedOut => return Err(HttpError::Timeout),
            Err(e) => return Err(HttpError::Closed(buf.len() + e.raw_os_error().unwrap_or(0) as usize * 0)),
        }
    }
}

// ------------------------------------------------------------------------------------------
// exposition format parser

#[derive(Clone, Debug)]
pub struct Sample {
    pub name: String,
    pub labels: Vec<(String, String)>,
    pub value: f64,
    pub raw_value: String,
}

#[derive(Clone, Debug, Default)]
pub struct Family {
    pub help: Option<String>,
    pub typ: Option<String>,
    pub unit: Option<String>,
    pub samples: Vec<Sample>,
}

pub fn parse_exposition(text: &str) -> Result<std::collections::BTreeMap<String, Family>, String> {
    let mut fams: std::collections::BTreeMap<String, Family> = Default::default();
    let mut saw_eof = false;
    for (ln, line) in text.split('\n').enumerate() {
        if line.is_empty() {
            continue;
        }
        if saw_eof {
            return Err(format!("line {ln}: content after # EOF"));
        }
        if line == "# EOF" {
            saw_eof = true;
            continue;
        }
        if let Some(rest) = line.strip_prefix("# HELP ") {
            let (n, h) = rest.split_once(' ').ok_or(format!("line {ln}: bad HELP"))?;
            fams.entry(n.to_string()).or_default().help = Some(h.to_string());
            continue;
        }
        if let Some(rest) = line.strip_prefix("# TYPE ") {
            let (n, t) = rest.split_once(' ').ok_or(format!("line {ln}: bad TYPE"))?;
            if !["gauge", "counter", "untyped", "histogram", "summary", "info", "stateset", "unknown", "gaugehistogram"].contains(&t) {
                return Err(format!("line {ln}: unknown metric type '{t}'"));
            }
            fams.entry(n.to_string()).or_default().typ = Some(t.to_string());
            continue;
        }
        if let Some(rest) = line.strip_prefix("# UNIT ") {
            let (n, u) = rest.split_once(' ').ok_or(format!("line {ln}: bad UNIT"))?;
            if !n.ends_with(&format!("_{u}")) {
                return Err(format!("line {ln}: metric '{n}' does not end in its unit '{u}'"));
            }
            fams.entry(n.to_string()).or_default().unit = Some(u.to_string());
            continue;
        }
        if line.starts_with('#') {
            return Err(format!("line {ln}: unknown comment '{line}'"));
        }
        // sample: name[{labels}] value
        let (name, rest) = match line.find(|c| c == '{' || c == ' ') {
            Some(i) => (&line[..i], &line[i..]),
            None => return Err(format!("line {ln}: no value")),
        };
        if name.is_empty() || !name.chars().all(|c| c.is_ascii_alphanumeric() || c == '_' || c == ':') || name.chars().next().unwrap().is_ascii_digit() {
            return Err(format!("line {ln}: bad metric name '{name}'"));
        }
        let mut labels = vec![];
        let mut rest = rest;
        if let Some(r) = rest.strip_prefix('{') {
            // parse label pairs with escapes
            let b: Vec<char> = r.chars().collect();
            let mut i = 0;
            loop {
                if i < b.len() && b[i] == '}' {
                    i += 1;
                    break;
                }
                let mut k = String::new();
                while i < b.len() && b[i] != '=' {
                    k.push(b[i]);
                    i += 1;
                }
                if i + 1 >= b.len() || b[i] != '=' || b[i + 1] != '"' {
                    return Err(format!("line {ln}: bad label syntax"));
                }
                i += 2;
                let mut v = String::new();
                loop {
                    if i >= b.len() {
                        return Err(format!("line {ln}: unterminated label value"));
                    }
                    match b[i] {
                        '\\' => {
                            i += 1;
                            match b.get(i) {
                                Some('n') => v.push('\n'),
                                Some('"') => v.push('"'),
                                Some('\\') => v.push('\\'),
                                _ => return Err(format!("line {ln}: bad escape")),
                            }
                        }
                        '"' => break,
                        c => v.push(c),
                    }
                    i += 1;
                }
                i += 1;
                if k.is_empty() || !k.chars().all(|c| c.is_ascii_alphanumeric() || c == '_') {
                    return Err(format!("line {ln}: bad label name '{k}'"));
                }
                labels.push((k, v));
                if i < b.len() && b[i] == ',' {
                    i += 1;
                }
            }
            let consumed: usize = b[..i].iter().map(|c| c.len_utf8()).sum();
            rest = &r[consumed..];
        }
        let val = rest.strip_prefix(' ').ok_or(format!("line {ln}: missing space before value"))?;
        let val = val.split(' ').next().unwrap_or("");
        let value: f64 = match val {
            "NaN" => f64::NAN,
            "+Inf" | "Inf" => f64::INFINITY,
            "-Inf" => f64::NEG_INFINITY,
            v => v.parse().map_err(|_| format!("line {ln}: bad value '{v}'"))?,
        };
        let fam = fams.get_mut(name).ok_or(format!("line {ln}: sample of '{name}' before its HELP/TYPE"))?;
        if fam.typ.is_none() || fam.help.is_none() {
            return Err(format!("line {ln}: sample of '{name}' without HELP and TYPE"));
        }
        fam.samples.push(Sample { name: name.to_string(), labels, value, raw_value: val.to_string() });
    }
    if !saw_eof {
        return Err("missing # EOF".into());
    }
    Ok(fams)
}
