//! Discrete-event network simulation of real statime instances: the host model mirrors what
//! `statime-linux/src/main.rs` does with actions, timers, timestamps and the BMCA.

use std::cmp::Reverse;
use std::collections::BinaryHeap;

use rand::rngs::StdRng;
use rand::{Rng, SeedableRng};
use statime::observability::port::PortState;

use crate::node::*;
use crate::refcodec::Msg;

pub const T_ANNOUNCE_TIMER: usize = 0;
pub const T_SYNC_TIMER: usize = 1;
pub const T_DELAY_REQ_TIMER: usize = 2;
pub const T_RECEIPT_TIMER: usize = 3;
pub const T_FILTER_TIMER: usize = 4;
pub const TIMER_NAMES: [&str; 5] = ["announce", "sync", "delay_request", "announce_receipt", "filter_update"];

#[derive(Clone, Debug)]
pub enum EvKind {
    Deliver { node: usize, port: usize, data: Vec<u8>, event: bool, from: (usize, usize) },
    Timer { node: usize, port: usize, kind: usize, gen: u64 },
    Bmca { node: usize },
    /// a transmit timestamp (taken when the frame left) that the host reports only now
    TxTs { node: usize, port: usize, slot: usize, t: u128 },
}

#[derive(Clone, Debug)]
struct QEv {
    t: u64,
    seq: u64,
    kind: EvKind,
}
impl PartialEq for QEv {
    fn eq(&self, o: &Self) -> bool {
        self.t == o.t && self.seq == o.seq
    }
}
impl Eq for QEv {}
impl PartialOrd for QEv {
    fn partial_cmp(&self, o: &Self) -> Option<std::cmp::Ordering> {
        Some(self.cmp(o))
    }
}
impl Ord for QEv {
    fn cmp(&self, o: &Self) -> std::cmp::Ordering {
        (self.t, self.seq).cmp(&(o.t, o.seq))
    }
}

#[derive(Clone, Debug)]
pub struct Link {
    pub ends: Vec<(usize, usize)>,
    pub delay_ns: u64,
    pub jitter_ns: u64,
    pub loss: f64,
    pub up: bool,
}

pub struct SimNode {
    pub node: Node,
    pub alive: bool,
    /// frames from and to this node are dropped (the node itself keeps running)
    pub muted: bool,
    pub link_of_port: Vec<Option<usize>>,
    /// armed deadline per port and timer kind
    pub timers: Vec<[Option<u64>; 5]>,
    timer_gen: Vec<[u64; 5]>,
    pub bmca_period_ns: u64,
    /// lose every transmit timestamp with this probability
    pub lose_tx_timestamp: f64,
    /// the host reports transmit timestamps this much later (0 = right after sending, like the
    /// daemon); larger than the round trip it puts the report behind the peer's response
    pub tx_ts_latency_ns: u64,
    /// timestamping error amplitude (ns), uniform +-
    pub ts_error_ns: u64,
}

#[derive(Clone, Debug)]
pub enum LogKind {
    Tx { msg_type: u8, event: bool, len: usize },
    Rx { msg_type: u8 },
    TimerFired { kind: usize },
    Bmca,
    StateChange { from: PortState, to: PortState, receipt_armed: bool },
    Panic(PanicInfo),
    LostTxTimestamp,
}

#[derive(Clone, Debug)]
pub struct LogEv {
    pub t: u64,
    pub node: usize,
    pub port: usize,
    pub kind: LogKind,
}

pub struct Sim {
    pub now: u64,
    seq: u64,
    queue: BinaryHeap<Reverse<QEv>>,
    pub nodes: Vec<SimNode>,
    pub links: Vec<Link>,
    pub rng: StdRng,
    pub log: Vec<LogEv>,
    pub keep_log: bool,
    /// frames emitted during the last `step` (node, port, event-channel?, bytes)
    pub last_tx: Vec<(usize, usize, bool, Vec<u8>)>,
    /// set when a host call panicked; the simulation must stop
    pub panic: Option<(usize, usize, String, PanicInfo)>,
    pub events_processed: u64,
    /// nodes whose Sync frames are rewritten to one-step on the wire (Follow_Up dropped)
    pub one_step: Vec<bool>,
    /// per node: stepsRemoved written into the Announces it transmits (emulates a clock that far
    /// down the tree); None = untouched
    pub announce_steps: Vec<Option<u16>>,
    /// per node: added (mod 2^16) to the sequenceId of every Announce it transmits, as if its ports had
    /// been announcing for that long already
    pub announce_seq_offset: Vec<u16>,
    /// per node: its Announces carry a PATH_TRACE TLV with this many entries (a parent at the end
    /// of a long chain of boundary clocks)
    pub announce_path_len: Vec<Option<usize>>,
    /// (follower, leader, ahead): the follower's Sync/Follow_Up sequence ids run in lockstep with
    /// the leader's (two masters that started together), `ahead` ids in front of the leader's last
    pub sync_seq_lockstep: Option<(usize, usize, u16)>,
    pub last_sync_seq: Vec<Option<u16>>,
    pub sync_seq_delta: Option<u16>,
    /// contexts of transmit timestamps whose report is still on its way (indexed by EvKind::TxTs.slot)
    held_tx_ctx: Vec<Option<statime::port::TimestampContext>>,
    /// hash of the order of processed events (distinct-interleaving evidence)
    pub order_hash: u64,
}

pub fn ns_units(ns: u64) -> u128 {
    (ns as u128) << 32
}

impl Sim {
    pub fn new(seed: u64) -> Sim {
        Sim {
            now: 0,
            seq: 0,
            queue: BinaryHeap::new(),
            nodes: vec![],
            links: vec![],
            rng: StdRng::seed_from_u64(seed),
            log: vec![],
            keep_log: false,
            last_tx: vec![],
            panic: None,
            events_processed: 0,
            one_step: vec![],
            announce_steps: vec![],
            announce_seq_offset: vec![],
            announce_path_len: vec![],
            sync_seq_lockstep: None,
            last_sync_seq: vec![],
            sync_seq_delta: None,
            held_tx_ctx: vec![],
            order_hash: 0xcbf29ce484222325,
        }
    }

    fn push(&mut self, t: u64, kind: EvKind) {
        self.seq += 1;
        self.queue.push(Reverse(QEv { t, seq: self.seq, kind }));
    }

    fn logev(&mut self, node: usize, port: usize, kind: LogKind) {
        if self.keep_log {
            self.log.push(LogEv { t: self.now, node, port, kind });
        }
    }

    /// add a node; its ports' initial actions are executed at the node's start time
    pub fn add_node(&mut self, node: Node, bmca_phase_ns: u64) -> usize {
        let n = node.n_ports();
        let period = node.inst().bmca_interval().as_nanos() as u64;
        let idx = self.nodes.len();
        let mut sn = SimNode {
            node,
            alive: true,
            muted: false,
            link_of_port: vec![None; n],
            timers: vec![[None; 5]; n],
            timer_gen: vec![[0; 5]; n],
            bmca_period_ns: period.max(1),
            lose_tx_timestamp: 0.0,
            tx_ts_latency_ns: 0,
            ts_error_ns: 0,
        };
        let initial = std::mem::take(&mut sn.node.initial_actions);
        self.nodes.push(sn);
        for (p, acts) in initial.into_iter().enumerate() {
            self.execute(idx, p, acts);
        }
        let t = self.now + bmca_phase_ns % period.max(1);
        self.push(t.max(self.now + 1), EvKind::Bmca { node: idx });
        idx
    }

    pub fn add_link(&mut self, ends: Vec<(usize, usize)>, delay_ns: u64, jitter_ns: u64, loss: f64) -> usize {
        let li = self.links.len();
        for (n, p) in &ends {
            self.nodes[*n].link_of_port[*p] = Some(li);
        }
        self.links.push(Link { ends, delay_ns, jitter_ns, loss, up: true });
        li
    }

    fn set_clock_time(&mut self, node: usize) {
        let t = ns_units(self.now);
        self.nodes[node].node.clock.lock().unwrap().set_true(t);
    }

    fn arm(&mut self, node: usize, port: usize, kind: usize, d: core::time::Duration) {
        let deadline = self.now + d.as_nanos().min(u64::MAX as u128 / 4) as u64;
        let sn = &mut self.nodes[node];
        sn.timers[port][kind] = Some(deadline);
        sn.timer_gen[port][kind] += 1;
        let gen = sn.timer_gen[port][kind];
        self.push(deadline, EvKind::Timer { node, port, kind, gen });
    }

    fn transmit(&mut self, node: usize, port: usize, data: Vec<u8>, event: bool) {
        let mut data = data;
        if self.one_step.get(node).copied().unwrap_or(false) {
            if let Ok(mut m) = Msg::decode(&data) {
                if m.hdr.msg_type == crate::refcodec::T_FOLLOW_UP {
                    return;
                }
                if m.hdr.msg_type == crate::refcodec::T_SYNC {
                    self.set_clock_time(node);
                    let t = self.nodes[node].node.clock.lock().unwrap().read();
                    let ns = t >> 32;
                    m.hdr.set_flag(crate::refcodec::F_TWO_STEP, false);
                    m.hdr.correction = ((t & 0xffff_ffff) >> 16) as i64;
                    m.body = crate::refcodec::Body::Sync { origin: crate::refcodec::Ts { secs: (ns / 1_000_000_000) as u64, nanos: (ns % 1_000_000_000) as u32 } };
                    m.hdr.length = None;
                    data = m.encode();
                }
            }
        }
        if let Some(off) = self.announce_seq_offset.get(node).copied().filter(|o| *o != 0) {
            if let Ok(mut m) = Msg::decode(&data) {
                if m.hdr.msg_type == crate::refcodec::T_ANNOUNCE {
                    m.hdr.seq = m.hdr.seq.wrapping_add(off);
                    m.hdr.length = None;
                    data = m.encode();
                }
            }
        }
        if let Some((follower, leader, ahead)) = self.sync_seq_lockstep {
            if let Ok(mut m) = Msg::decode(&data) {
                let is_sync = m.hdr.msg_type == crate::refcodec::T_SYNC;
                if is_sync || m.hdr.msg_type == crate::refcodec::T_FOLLOW_UP {
                    if node == follower {
                        if self.sync_seq_delta.is_none() && is_sync {
                            if let Some(Some(l)) = self.last_sync_seq.get(leader).copied() {
                                self.sync_seq_delta = Some(l.wrapping_add(ahead).wrapping_sub(m.hdr.seq));
                            }
                        }
                        if let Some(d) = self.sync_seq_delta {
                            m.hdr.seq = m.hdr.seq.wrapping_add(d);
                            m.hdr.length = None;
                            data = m.encode();
                        }
                    } else if is_sync {
                        while self.last_sync_seq.len() <= node {
                            self.last_sync_seq.push(None);
                        }
                        self.last_sync_seq[node] = Some(m.hdr.seq);
                    }
                }
            }
        }
        if let Some(Some(n)) = self.announce_path_len.get(node).copied() {
            if let Ok(mut m) = Msg::decode(&data) {
                if m.hdr.msg_type == crate::refcodec::T_ANNOUNCE {
                    let mut v = Vec::with_capacity(8 * n);
                    for i in 0..n {
                        v.extend_from_slice(&[0xa0, 0, 0, 0xee, (i >> 8) as u8, i as u8, 1, node as u8]);
                    }
                    m.tlvs = vec![crate::refcodec::Tlv::new(crate::refcodec::TLV_PATH_TRACE, v)];
                    m.hdr.length = None;
                    data = m.encode();
                }
            }
        }
        if let Some(Some(steps)) = self.announce_steps.get(node).copied() {
            if let Ok(mut m) = Msg::decode(&data) {
                if let crate::refcodec::Body::Announce(ref mut a) = m.body {
                    a.steps_removed = steps;
                    m.hdr.length = None;
                    data = m.encode();
                }
            }
        }
        if let Ok(m) = Msg::decode(&data) {
            self.logev(node, port, LogKind::Tx { msg_type: m.hdr.msg_type, event, len: data.len() });
        }
        self.last_tx.push((node, port, event, data.clone()));
        if self.nodes[node].muted {
            return;
        }
        let Some(li) = self.nodes[node].link_of_port[port] else { return };
        let link = self.links[li].clone();
        if !link.up {
            return;
        }
        for (n2, p2) in link.ends {
            if (n2, p2) == (node, port) {
                continue;
            }
            if link.loss > 0.0 && self.rng.gen_bool(link.loss) {
                continue;
            }
            let j = if link.jitter_ns > 0 { self.rng.gen_range(0..=link.jitter_ns) } else { 0 };
            let t = self.now + link.delay_ns + j;
            self.push(t, EvKind::Deliver { node: n2, port: p2, data: data.clone(), event, from: (node, port) });
        }
    }

    /// execute a list of actions the way `handle_actions` + the send-timestamp loop of the daemon do
    pub fn execute(&mut self, node: usize, port: usize, acts: Vec<Act>) {
        let mut work: Vec<Act> = acts;
        while !work.is_empty() {
            let mut pending_ts = None;
            for a in work.drain(..) {
                match a {
                    Act::SendEvent { ctx, data, .. } => {
                        self.transmit(node, port, data, true);
                        pending_ts = ctx;
                    }
                    Act::SendGeneral { data, .. } => self.transmit(node, port, data, false),
                    Act::ResetAnnounceTimer(d) => self.arm(node, port, T_ANNOUNCE_TIMER, d),
                    Act::ResetSyncTimer(d) => self.arm(node, port, T_SYNC_TIMER, d),
                    Act::ResetDelayRequestTimer(d) => self.arm(node, port, T_DELAY_REQ_TIMER, d),
                    Act::ResetAnnounceReceiptTimer(d) => self.arm(node, port, T_RECEIPT_TIMER, d),
                    Act::ResetFilterUpdateTimer(d) => self.arm(node, port, T_FILTER_TIMER, d),
                    Act::ForwardTlv { tlv, .. } => {
                        if let Some(t) = tlv {
                            self.nodes[node].node.forward_tlv(port, t);
                        }
                    }
                }
            }
            if let Some(ctx) = pending_ts {
                let lose = self.nodes[node].lose_tx_timestamp;
                if lose > 0.0 && self.rng.gen_bool(lose) {
                    self.logev(node, port, LogKind::LostTxTimestamp);
                    continue;
                }
                self.set_clock_time(node);
                let err = self.nodes[node].ts_error_ns;
                let mut t = self.nodes[node].node.clock.lock().unwrap().read();
                if err > 0 {
                    let e = self.rng.gen_range(0..=2 * err) as i128 - err as i128;
                    t = (t as i128 + (e << 32)).max(0) as u128;
                }
                let latency = self.nodes[node].tx_ts_latency_ns;
                if latency > 0 {
                    self.held_tx_ctx.push(Some(ctx));
                    let slot = self.held_tx_ctx.len() - 1;
                    self.push(self.now + latency, EvKind::TxTs { node, port, slot, t });
                    continue;
                }
                match self.host_call(node, port, Call::TxTimestamp(ctx, time_from_units(t))) {
                    Some(more) => work = more,
                    None => return,
                }
            }
        }
    }

    /// one host call with state-change logging; None if it panicked
    fn host_call(&mut self, node: usize, port: usize, call: Call) -> Option<Vec<Act>> {
        let before = self.nodes[node].node.port_state(port);
        let desc = call.kind().to_string();
        self.set_clock_time(node);
        match self.nodes[node].node.call(port, call) {
            Ok(acts) => {
                let after = self.nodes[node].node.port_state(port);
                if before != after {
                    let receipt_armed = self.nodes[node].timers[port][T_RECEIPT_TIMER].is_some();
                    self.logev(node, port, LogKind::StateChange { from: before, to: after, receipt_armed });
                }
                Some(acts)
            }
            Err(p) => {
                self.logev(node, port, LogKind::Panic(p.clone()));
                self.panic = Some((node, port, desc, p));
                self.nodes[node].alive = false;
                None
            }
        }
    }

    pub fn next_time(&self) -> Option<u64> {
        self.queue.peek().map(|e| e.0.t)
    }

    /// process one event; returns false if the queue is empty or the simulation panicked
    pub fn step(&mut self) -> bool {
        if self.panic.is_some() {
            return false;
        }
        let Some(Reverse(ev)) = self.queue.pop() else { return false };
        self.now = ev.t;
        self.last_tx.clear();
        self.events_processed += 1;
        match ev.kind {
            EvKind::Deliver { node, port, data, event, from } => {
                self.order_hash = (self.order_hash ^ (0x100 + node as u64 * 16 + port as u64 + ((from.0 as u64) << 12))).wrapping_mul(0x100000001b3);
                if !self.nodes[node].alive || self.nodes[node].muted {
                    return true;
                }
                if let Ok(m) = Msg::decode(&data) {
                    self.logev(node, port, LogKind::Rx { msg_type: m.hdr.msg_type });
                }
                // daemon buffers: 1024 bytes on the event socket, 2048 on the general socket
                let call = if event {
                    let mut d = data;
                    d.truncate(1024);
                    self.set_clock_time(node);
                    let t = self.nodes[node].node.clock.lock().unwrap().read();
                    let err = self.nodes[node].ts_error_ns;
                    let t = if err > 0 {
                        let e = self.rng.gen_range(0..=2 * err) as i128 - err as i128;
                        (t as i128 + (e << 32)).max(0) as u128
                    } else {
                        t
                    };
                    Call::EventRx(d, time_from_units(t))
                } else {
                    let mut d = data;
                    d.truncate(2048);
                    Call::GeneralRx(d)
                };
                if let Some(acts) = self.host_call(node, port, call) {
                    self.execute(node, port, acts);
                }
            }
            EvKind::TxTs { node, port, slot, t } => {
                let Some(ctx) = self.held_tx_ctx.get_mut(slot).and_then(|c| c.take()) else { return true };
                if !self.nodes[node].alive {
                    return true;
                }
                if let Some(acts) = self.host_call(node, port, Call::TxTimestamp(ctx, time_from_units(t))) {
                    self.execute(node, port, acts);
                }
            }
            EvKind::Timer { node, port, kind, gen } => {
                let sn = &mut self.nodes[node];
                if !sn.alive || sn.timer_gen[port][kind] != gen || sn.timers[port][kind].is_none() {
                    return true;
                }
                sn.timers[port][kind] = None;
                self.order_hash = (self.order_hash ^ (0x200 + node as u64 * 64 + port as u64 * 8 + kind as u64)).wrapping_mul(0x100000001b3);
                self.logev(node, port, LogKind::TimerFired { kind });
                let call = match kind {
                    T_ANNOUNCE_TIMER => Call::AnnounceTimer,
                    T_SYNC_TIMER => Call::SyncTimer,
                    T_DELAY_REQ_TIMER => Call::DelayRequestTimer,
                    T_RECEIPT_TIMER => Call::AnnounceReceiptTimer,
                    _ => Call::FilterUpdateTimer,
                };
                if let Some(acts) = self.host_call(node, port, call) {
                    self.execute(node, port, acts);
                }
            }
            EvKind::Bmca { node } => {
                let period = self.nodes[node].bmca_period_ns;
                self.push(self.now + period, EvKind::Bmca { node });
                if !self.nodes[node].alive {
                    return true;
                }
                self.order_hash = (self.order_hash ^ (0x300 + node as u64)).wrapping_mul(0x100000001b3);
                self.set_clock_time(node);
                let n = self.nodes[node].node.n_ports();
                let before: Vec<PortState> = (0..n).map(|p| self.nodes[node].node.port_state(p)).collect();
                match self.nodes[node].node.bmca() {
                    Ok(all) => {
                        self.logev(node, 0, LogKind::Bmca);
                        for (p, b) in before.iter().enumerate() {
                            let after = self.nodes[node].node.port_state(p);
                            if *b != after {
                                let receipt_armed = self.nodes[node].timers[p][T_RECEIPT_TIMER].is_some();
                                self.logev(node, p, LogKind::StateChange { from: *b, to: after, receipt_armed });
                            }
                        }
                        for (p, acts) in all.into_iter().enumerate() {
                            self.execute(node, p, acts);
                        }
                    }
                    Err(pn) => {
                        self.logev(node, 0, LogKind::Panic(pn.clone()));
                        self.panic = Some((node, 0, "bmca".into(), pn));
                        self.nodes[node].alive = false;
                    }
                }
            }
        }
        true
    }

    pub fn run_until(&mut self, t: u64) {
        while let Some(nt) = self.next_time() {
            if nt > t || !self.step() {
                break;
            }
        }
        if self.now < t && self.panic.is_none() {
            self.now = t;
        }
    }

    pub fn set_link(&mut self, li: usize, up: bool) {
        self.links[li].up = up;
    }
    pub fn silence(&mut self, node: usize) {
        self.nodes[node].alive = false;
    }
}
