//! C03 - no input, timing or call order makes the library panic or overflow.
//! Oracle: catch_unwind around every host call (panic hook captures message + location), in the
//! `checked` (overflow-checks + debug-assertions) and `release` builds; poisoned-lock detection via
//! MonMutex.

use rand::rngs::StdRng;
use rand::{Rng, SeedableRng};
use serde_json::json;

use crate::drive::state_name;
use crate::hostile::*;
use crate::node::*;
use crate::report::*;

#[derive(Clone, Debug, serde::Serialize, serde::Deserialize)]
pub struct Case {
    pub cfg: Config,
    pub adversarial_time: bool,
    pub gen_seed: u64,
    pub n_ops: usize,
    /// filled in when a violation is recorded: the concrete ops up to and including the failing one
    #[serde(default)]
    pub ops: Vec<Op>,
}

pub fn replay_ops(rep: &mut Report, case: &Case) {
    let mut ex = match Exec::new(&case.cfg) {
        Ok(e) => e,
        Err(p) => {
            println!("setup panicked: {}", p.describe());
            return;
        }
    };
    for (i, op) in case.ops.iter().enumerate() {
        let st = ex.states();
        match ex.apply(op) {
            Ok(_) => {}
            Err(p) => {
                println!("op {i} {} in states {:?} panicked: {}", op.kind(), st.iter().map(|s| state_name(*s)).collect::<Vec<_>>(), p.describe());
                rep.violation("replayed", &p.describe(), json!(null));
                return;
            }
        }
    }
    println!("replayed {} ops without panic", case.ops.len());
}

pub fn run_case(rep: &mut Report, case: &Case) {
    let regime = if case.adversarial_time { "adversarial-time" } else { "consistent-time" };
    let mut ex = match Exec::new(&case.cfg) {
        Ok(e) => e,
        Err(p) => {
            rep.violation(&format!("C03|panic|{}|{}|setup", p.site(), p.class()), &format!("instance/port construction panicked: {}", p.describe()), serde_json::to_value(case).unwrap());
            return;
        }
    };
    let mut gen = Gen::new(case.gen_seed, case.adversarial_time, &case.cfg);
    let mut ops: Vec<Op> = vec![];
    let setup = gen.setup_ops(&ex);
    let mut queue: std::collections::VecDeque<Op> = setup.into();
    let mut done = 0;
    while done < case.n_ops {
        let op = match queue.pop_front() {
            Some(o) => o,
            None => gen.next(&ex),
        };
        done += 1;
        let port = match &op {
            Op::Event { port, .. } | Op::General { port, .. } | Op::TxTs { port, .. } | Op::DropTx { port, .. } | Op::Timer { port, .. } => *port,
            _ => 0,
        };
        let st = ex.node.port_state(port);
        let kind = op.kind();
        rep.ev("host_call");
        rep.distinct_label(&format!("{}|{}", state_name(st), kind));
        rep.ev(&format!("state_{}", state_name(st)));
        ops.push(op.clone());
        match ex.apply(&op) {
            Ok(_) => {}
            Err(p) => {
                let mut c = case.clone();
                c.ops = ops.clone();
                if p.nested_lock {
                    rep.violation("C03|nested-lock", &format!("{kind} in {}: instance state lock requested while held", state_name(st)), serde_json::to_value(&c).unwrap());
                } else {
                    rep.violation(
                        &format!("C03|panic|{}|{}", p.site(), p.class()),
                        &format!("{kind} on a {} port ({regime}) panicked: {}", state_name(st), p.describe()),
                        serde_json::to_value(&c).unwrap(),
                    );
                }
                return;
            }
        }
        // getters are host calls too
        if done % 16 == 0 {
            if let Err(p) = ex.node.snapshot() {
                let mut c = case.clone();
                c.ops = ops.clone();
                rep.violation(&format!("C03|panic|{}|{}", p.site(), p.class()), &format!("data set getter panicked: {}", p.describe()), serde_json::to_value(&c).unwrap());
                return;
            }
        }
    }
    if POISON_EVENTS.load(std::sync::atomic::Ordering::Relaxed) > 0 {
        rep.violation("C03|poisoned-lock", "instance state lock was found poisoned", serde_json::to_value(case).unwrap());
    }
}

/// Long histories the short hostile cases never reach: a slave port with a non-default Kalman
/// configuration (estimator boundaries and hysteresis at their extremes) receives hundreds of
/// exchanges from its parent, spaced from milliseconds to days apart, with offsets that keep
/// contradicting the estimate. Counters and accumulators that only move once per exchange (wander
/// score, sample windows) get to their limits here.
fn long_history(rep: &mut Report, seed: u64, n_syncs: u32) {
    use crate::drive::{make_slave, Build, Remote};
    use crate::refcodec::Ts;
    use statime::filters::KalmanConfiguration;
    use statime::observability::port::PortState;
    let replay = json!({"long_history_seed": seed, "syncs": n_syncs});
    let mut rng = StdRng::seed_from_u64(seed);
    let mut cfg = KalmanConfiguration::default();
    cfg.precision_hysteresis = [1u8, 16, 126, 127][rng.gen_range(0..4)];
    cfg.difference_estimation_boundary = [1usize, 4, 8][rng.gen_range(0..3)];
    cfg.statistical_estimation_boundary = [2usize, 8, 32][rng.gen_range(0..3)];
    let mut b = Build::new(6);
    b.filter = Some(FilterCfg::Kalman(cfg));
    b.seed = seed;
    let Ok(built) = b.build() else { return };
    let mut node = built.node;
    let mut parent = Remote::new(9, 1);
    if make_slave(&mut node, 0, &mut parent).is_err() || node.port_state(0) != PortState::Slave {
        return;
    }
    let clock = node.clock.clone();
    let mut t: u128 = 1_700_000_000 * SEC;
    let gap_ns: u128 = [1_000_000u128, 1_000_000_000, 3_600_000_000_000, 300_000_000_000_000][rng.gen_range(0..4)];
    let off_ns: u128 = [0u128, 1_000, 1_000_000, 100_000_000_000][rng.gen_range(0..4)];
    let regime = format!("hysteresis={} gap={}ns off={}ns", cfg.precision_hysteresis, gap_ns, off_ns);
    for k in 0..n_syncs {
        t += gap_ns << 32;
        clock.lock().unwrap().set_true(t);
        let rx = clock.lock().unwrap().read();
        // the master's time keeps running away from / towards the slave's by `off` per exchange
        let origin_units = rx.saturating_sub(((off_ns * (1 + (k as u128 % 3))) << 32).min(rx));
        let origin = Ts { secs: ((origin_units >> 32) / 1_000_000_000) as u64, nanos: ((origin_units >> 32) % 1_000_000_000) as u32 };
        let m = parent.src.sync(k as u16, false, origin, 0);
        rep.ev("host_call");
        rep.ev("long_history_sync");
        if let Err(p) = node.call(0, Call::EventRx(m.encode(), time_from_units(rx))) {
            rep.violation(
                &format!("C03|panic|{}|{}", p.site(), p.class()),
                &format!("Sync number {k} of a long slave history ({regime}) panicked: {}", p.describe()),
                replay,
            );
            return;
        }
        if k % 4 == 0 {
            // keep the parent qualified
            let a = parent.next_announce();
            if node.call(0, Call::GeneralRx(a.encode())).is_err() {
                return;
            }
        }
    }
}

/// A port that has been up for a long time: more than 65536 messages of each kind it originates
/// (every internal counter wraps at least once).
fn many_events(rep: &mut Report, seed: u64) {
    use crate::drive::{make_slave, Build, Remote};
    use statime::observability::port::PortState;
    let replay = json!({"many_events_seed": seed});
    let role = seed % 3; // 0 master (E2E), 1 slave (E2E), 2 P2P port
    let mut b = Build::new(6);
    b.p2p = role == 2;
    b.seed = seed;
    let Ok(built) = b.build() else { return };
    let mut node = built.node;
    let clock = node.clock.clone();
    let mut t: u128 = 1_700_000_000 * SEC;
    if role == 1 {
        let mut parent = Remote::new(9, 1);
        if make_slave(&mut node, 0, &mut parent).is_err() || node.port_state(0) != PortState::Slave {
            return;
        }
    } else if node.call(0, Call::AnnounceReceiptTimer).is_err() {
        return;
    }
    let n = 66_000u32 + (seed % 1000) as u32;
    let calls: &[u8] = match role {
        0 => &[0, 1],
        1 => &[2],
        _ => &[2, 0, 1],
    };
    for k in 0..n {
        t += 125_000_000u128 << 32;
        clock.lock().unwrap().set_true(t);
        for c in calls {
            rep.ev("host_call");
            let c = match c {
                0 => Call::SyncTimer,
                1 => Call::AnnounceTimer,
                _ => Call::DelayRequestTimer,
            };
            let what = c.kind();
            let acts = match node.call(0, c) {
                Ok(a) => a,
                Err(p) => {
                    rep.violation(&format!("C03|panic|{}|{}", p.site(), p.class()), &format!("{what} number {k} of a long-running port panicked: {}", p.describe()), replay);
                    return;
                }
            };
            for a in acts {
                if let Act::SendEvent { ctx: Some(ctx), .. } = a {
                    rep.ev("host_call");
                    if let Err(p) = node.call(0, Call::TxTimestamp(ctx, time_from_units(t))) {
                        rep.violation(&format!("C03|panic|{}|{}", p.site(), p.class()), &format!("transmit timestamp number {k} of a long-running port panicked: {}", p.describe()), replay);
                        return;
                    }
                }
            }
        }
    }
    rep.ev("port_driven_through_more_than_65536_messages_of_a_kind");
}

pub fn run(rep: &mut Report, tier: &str, seed: u64, shard: (u32, u32), replay: Option<&str>) {
    rep.rule = "random instance configurations (1-3 ports, E2E/P2P, path trace, slave-only, master-only, acceptable master lists, Kalman/Basic/recording filter, real or scripted TLV forwarder, failing clocks, clock near 0 / 2^48 s / 2^62 ns) driven into protocol states and then through adaptive hostile host calls (reference-codec frames with boundary-lattice fields from the parent / other masters / own identity, TLVs sized around every margin, PATH_TRACE 0..240 entries, truncations, bit flips, random bytes <= 2048, timers, transmit timestamps, BMCA, run-time setting changes) in a consistent and an adversarial timestamp regime; distinct = (port state x call kind x message type) cells hit; every host call counted".into();
    rep.require(&["host_call", "state_Listening", "state_Master", "state_Slave", "state_Passive", "state_Faulty", "port_driven_through_more_than_65536_messages_of_a_kind"]);
    if let Some(path) = replay {
        let v: serde_json::Value = serde_json::from_str(&std::fs::read_to_string(path).unwrap()).unwrap();
        match serde_json::from_value::<Case>(v["case"].clone()) {
            Ok(c) => replay_ops(rep, &c),
            Err(e) => println!("cannot parse replay: {e}"),
        }
        return;
    }
    let mut rng = StdRng::seed_from_u64(seed ^ 0xc03 ^ ((shard.0 as u64) << 40));
    let n_cases: u64 = if tier == "miri" { 4 } else if tier == "thorough" { 60_000 } else { 1200 };
    let budget = Budget::new(n_cases, if tier == "thorough" { 900.0 } else { 25.0 });
    let mut i = 0;
    while budget.left(i) {
        i += 1;
        let cfg = gen_config(&mut rng);
        let case = Case { cfg, adversarial_time: rng.gen_bool(0.5), gen_seed: rng.gen(), n_ops: if tier == "miri" { 60 } else { 250 }, ops: vec![] };
        if i <= 2 {
            rep.sample(json!({"config": case.cfg, "adversarial_time": case.adversarial_time, "n_ops": case.n_ops}));
        }
        run_case(rep, &case);
        rep.evaluations += 1;
        if tier != "miri" && i % 25 == 0 {
            long_history(rep, rng.gen(), 400);
        }
        if tier != "miri" && i % 400 == 7 {
            many_events(rep, seed.wrapping_add(i));
        }
    }
}
