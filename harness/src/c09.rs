//! C09 - offset and delay measurements use one matching exchange, exactly.
//! Oracle: every scripted exchange carries unique timestamps/corrections, so a measurement is
//! legal iff it equals the IEEE expression over ONE exchange in exact integer arithmetic.

use rand::rngs::StdRng;
use rand::{Rng, SeedableRng};
use serde_json::json;
use statime::port::{Measurement, TimestampContext};

use crate::drive::*;
use crate::node::*;
use crate::refcodec::*;
use crate::report::*;

#[derive(Clone, Copy, Debug, PartialEq, Eq, serde::Serialize, serde::Deserialize)]
pub enum E {
    /// Sync of exchange k from the parent
    S(u8),
    /// Follow_Up of exchange k from the parent
    F(u8),
    /// Sync / Follow_Up with the same sequence id from another master
    SQ(u8),
    FQ(u8),
    /// delay request timer fires (port emits Delay_Req)
    T,
    /// host reports the transmit timestamp of the oldest outstanding Delay_Req
    X,
    /// Delay_Resp from the parent for the latest request (variant 0/1 = two different contents)
    R(u8),
    /// Delay_Resp from the parent for the previous request
    ROld,
    /// Delay_Resp from another master / for another requester
    RQ,
    RO,
    /// filter update timer
    U,
}

#[derive(Clone, Debug, serde::Serialize, serde::Deserialize)]
pub struct Case {
    pub seed: u64,
    pub script: Vec<E>,
    /// per exchange: two-step?
    pub two_step: [bool; 3],
    pub seq_base: u16,
    pub base_kind: u8,
    pub asym_kind: u8,
    pub big_corr: bool,
    /// for one-step exchanges, F(k) delivers a stray Follow_Up from the parent carrying the same
    /// sequence id but another time (e.g. left over from a lost two-step Sync); it belongs to no
    /// exchange and must never be combined with the one-step Sync
    #[serde(default)]
    pub stray_fu: bool,
}

struct Ex {
    seq: u16,
    two_step: bool,
    t1: Ts,
    corr_f: i64,
    corr_s: i64,
    sync_deliveries: Vec<u128>,
    fu_delivered: bool,
}

struct Dx {
    seq: u16,
    t3: Option<u128>,
    resp: [(Ts, i64); 2],
    resp_delivered: [bool; 2],
}

fn rand_corr(rng: &mut StdRng, big: bool) -> i64 {
    match rng.gen_range(0..4) {
        0 => 0,
        1 => rng.gen_range(-(1i64 << 36)..(1i64 << 36)),
        _ => {
            if big {
                // up to +-10 s
                rng.gen_range(-(10_000_000_000i64 << 16)..(10_000_000_000i64 << 16))
            } else {
                rng.gen_range(-(1i64 << 30)..(1i64 << 30))
            }
        }
    }
}

fn units_to_ts(u: u128) -> Ts {
    let ns = u >> 32;
    Ts { secs: (ns / 1_000_000_000) as u64, nanos: (ns % 1_000_000_000) as u32 }
}

pub fn run_case(rep: &mut Report, case: &Case, verbose: bool) {
    let replay = serde_json::to_value(case).unwrap();
    let mut rng = StdRng::seed_from_u64(case.seed);
    let asym: i128 = match case.asym_kind {
        0 => 0,
        1 => rng.gen_range(1..(1i128 << 50)),
        _ => -rng.gen_range(1..(1i128 << 50)),
    };
    let base: u128 = match case.base_kind {
        0 => 2 * SEC + rng.gen_range(0..SEC),
        1 => 1_700_000_000 * SEC + rng.gen_range(0..SEC),
        2 => (1u128 << 32) * SEC - 2 * SEC + rng.gen_range(0..SEC),
        3 => ((1u128 << 48) - 1000) * SEC + rng.gen_range(0..SEC),
        _ => 999_999_999 * SEC + (SEC - rng.gen_range(0..(1u128 << 40))),
    };
    let mut b = Build::new(2);
    b.rec_reply = ReplyMode::Counter { step: 1_000_003 };
    b.asymmetry_units = asym;
    b.seed = case.seed;
    let built = match b.build() {
        Ok(x) => x,
        Err(_) => return,
    };
    let mut node = built.node;
    let rec = built.rec.unwrap();
    let mut parent = Remote::new(9, 1);
    if make_slave(&mut node, 0, &mut parent).is_err() || node.port_state(0) != statime::observability::port::PortState::Slave {
        rep.inconclusive("could not bring port to slave");
        return;
    }
    let other = Remote::new(10, 1);
    let (oc, op) = node.port_identity_bytes(0);
    let own = Pid { clock: oc, port: op };
    // exchanges
    let mut now = base;
    let mut exs: Vec<Ex> = (0..3u16)
        .map(|k| {
            let t1u = now + rng.gen_range(0..(1u128 << 40));
            now += SEC / 8 + rng.gen_range(0..(1u128 << 38));
            Ex {
                seq: case.seq_base.wrapping_add(k),
                two_step: case.two_step[k as usize],
                t1: units_to_ts(t1u),
                corr_f: if case.two_step[k as usize] { rand_corr(&mut rng, case.big_corr) } else { 0 },
                corr_s: rand_corr(&mut rng, case.big_corr),
                sync_deliveries: vec![],
                fu_delivered: false,
            }
        })
        .collect();
    let mut dxs: Vec<Dx> = vec![];
    let mut pending_ctx: Vec<(usize, TimestampContext)> = vec![];
    let mut legal_sync: Vec<(i128, i128)> = vec![]; // (raw_sync, event_time)
    let mut legal_delay: Vec<(i128, i128)> = vec![];
    let mut seen_events = rec.lock().unwrap().events.len();
    let mut last_reply: Option<i128> = None;
    let mut last_raw_sync: Option<i128> = None;
    let mut clock_now = base;

    for (step, ev) in case.script.iter().enumerate() {
        clock_now += rng.gen_range(1..(1u128 << 36));
        let call = match *ev {
            E::S(k) | E::SQ(k) => {
                let k = k as usize % 3;
                let from_parent = matches!(ev, E::S(_));
                let t2 = clock_now + rng.gen_range(0..(1u128 << 34));
                let ex = &mut exs[k];
                // the "other master" is either another identity or the parent's own port serving
                // another domain / sdoId with the same sequence ids
                let foreign_domain = !from_parent && rng.gen_bool(0.5);
                let src = if from_parent || foreign_domain { &parent.src } else { &other.src };
                let (corr, origin) = if from_parent {
                    (ex.corr_s, if ex.two_step { Ts::default() } else { ex.t1 })
                } else {
                    (rng.gen_range(0..(1i64 << 30)), units_to_ts(clock_now / 2))
                };
                let mut m = src.sync(ex.seq, ex.two_step, origin, corr);
                if foreign_domain {
                    rep.ev("message_of_the_parent_port_in_another_domain");
                    if rng.gen_bool(0.5) {
                        m.hdr.domain = m.hdr.domain.wrapping_add(1 + rng.gen_range(0..200));
                    } else {
                        m.hdr.minor_sdo = m.hdr.minor_sdo.wrapping_add(1);
                    }
                }
                if from_parent {
                    ex.sync_deliveries.push(t2);
                }
                Call::EventRx(m.encode(), time_from_units(t2))
            }
            E::F(k) | E::FQ(k) => {
                let k = k as usize % 3;
                let from_parent = matches!(ev, E::F(_));
                let ex = &mut exs[k];
                if !ex.two_step && from_parent && !case.stray_fu {
                    // a Follow_Up for a one-step exchange does not exist; deliver nothing
                    continue;
                }
                let foreign_domain = !from_parent && rng.gen_bool(0.5);
                let src = if from_parent || foreign_domain { &parent.src } else { &other.src };
                let mut m = if !ex.two_step && from_parent {
                    rep.ev("stray_follow_up_for_one_step_sync");
                    let stray = ex.t1.to_units() + SEC / 1000 + rng.gen_range(0..(1u128 << 44));
                    src.follow_up(ex.seq, units_to_ts(stray), rand_corr(&mut rng, false))
                } else if from_parent {
                    ex.fu_delivered = true;
                    src.follow_up(ex.seq, ex.t1, ex.corr_f)
                } else {
                    src.follow_up(ex.seq, units_to_ts(clock_now / 3), rng.gen_range(0..(1i64 << 30)))
                };
                if foreign_domain {
                    rep.ev("message_of_the_parent_port_in_another_domain");
                    m.hdr.domain = m.hdr.domain.wrapping_add(1 + rng.gen_range(0..200));
                }
                Call::GeneralRx(m.encode())
            }
            E::T => Call::DelayRequestTimer,
            E::X => {
                if pending_ctx.is_empty() {
                    continue;
                }
                let (d, ctx) = pending_ctx.remove(0);
                let t3 = clock_now + rng.gen_range(0..(1u128 << 34));
                dxs[d].t3 = Some(t3);
                Call::TxTimestamp(ctx, time_from_units(t3))
            }
            E::R(v) => {
                let Some(d) = dxs.last_mut() else { continue };
                let v = v as usize % 2;
                d.resp_delivered[v] = true;
                let (t4, c) = d.resp[v];
                Call::GeneralRx(parent.src.delay_resp(d.seq, t4, own, c).encode())
            }
            E::ROld => {
                if dxs.len() < 2 {
                    continue;
                }
                let i = dxs.len() - 2;
                let d = &mut dxs[i];
                d.resp_delivered[0] = true;
                let (t4, c) = d.resp[0];
                Call::GeneralRx(parent.src.delay_resp(d.seq, t4, own, c).encode())
            }
            E::RQ => {
                let Some(d) = dxs.last() else { continue };
                if rng.gen_bool(0.5) {
                    let mut m = parent.src.delay_resp(d.seq, units_to_ts(clock_now / 5), own, 17);
                    m.hdr.domain = m.hdr.domain.wrapping_add(1 + rng.gen_range(0..200));
                    rep.ev("message_of_the_parent_port_in_another_domain");
                    Call::GeneralRx(m.encode())
                } else {
                    Call::GeneralRx(other.src.delay_resp(d.seq, units_to_ts(clock_now / 5), own, 17).encode())
                }
            }
            E::RO => {
                let Some(d) = dxs.last() else { continue };
                let someone = Pid { clock: [7; 8], port: 3 };
                Call::GeneralRx(parent.src.delay_resp(d.seq, units_to_ts(clock_now / 7), someone, 19).encode())
            }
            E::U => Call::FilterUpdateTimer,
        };
        let desc = if verbose { call.describe() } else { String::new() };
        let acts = match node.call(0, call) {
            Ok(a) => a,
            Err(p) => {
                let cls = if case.big_corr && case.base_kind == 0 { "small-time-large-correction" } else { "other" };
                rep.violation(
                    &format!("C09|panic|{}|{}|{cls}", p.site(), p.class()),
                    &format!("step {step} ({ev:?}) panicked: {}", p.describe()),
                    replay.clone(),
                );
                return;
            }
        };
        for a in acts {
            if let Act::SendEvent { ctx: Some(c), data, .. } = a {
                if let Ok(m) = Msg::decode(&data) {
                    if m.hdr.msg_type == T_DELAY_REQ {
                        let t4a = clock_now + rng.gen_range(0..(1u128 << 40));
                        let t4b = clock_now + rng.gen_range(0..(1u128 << 41));
                        dxs.push(Dx {
                            seq: m.hdr.seq,
                            t3: None,
                            resp: [(units_to_ts(t4a), rand_corr(&mut rng, case.big_corr)), (units_to_ts(t4b), rand_corr(&mut rng, case.big_corr))],
                            resp_delivered: [false, false],
                        });
                        pending_ctx.push((dxs.len() - 1, c));
                    }
                }
            }
        }
        // rebuild legal sets from everything delivered so far
        legal_sync.clear();
        for ex in &exs {
            if ex.two_step && !ex.fu_delivered {
                continue;
            }
            for &t2 in &ex.sync_deliveries {
                let recv = t2 as i128 - ((ex.corr_s as i128) << 16);
                let send = ex.t1.to_units() as i128 + ((ex.corr_f as i128) << 16);
                legal_sync.push((recv - send - asym, recv));
            }
        }
        legal_delay.clear();
        for d in &dxs {
            if let Some(t3) = d.t3 {
                for v in 0..2 {
                    if d.resp_delivered[v] {
                        let (t4, c) = d.resp[v];
                        let recv = t4.to_units() as i128 - ((c as i128) << 16);
                        legal_delay.push((t3 as i128 - recv - asym, t3 as i128));
                    }
                }
            }
        }
        // judge new measurements
        let new: Vec<RecEvent> = {
            let g = rec.lock().unwrap();
            let v = g.events[seen_events..].to_vec();
            seen_events = g.events.len();
            v
        };
        for e in new {
            let RecEvent::Measurement { m, reply_mean_delay, .. } = e else { continue };
            judge(rep, case, &replay, step, *ev, &m, &legal_sync, &legal_delay, last_reply, &mut last_raw_sync);
            if reply_mean_delay.is_some() {
                last_reply = reply_mean_delay;
            }
        }
        if verbose {
            eprintln!("step {step}: {ev:?} {desc}");
        }
    }
}

#[allow(clippy::too_many_arguments)]
fn judge(
    rep: &mut Report,
    case: &Case,
    replay: &serde_json::Value,
    step: usize,
    ev: E,
    m: &Measurement,
    legal_sync: &[(i128, i128)],
    legal_delay: &[(i128, i128)],
    last_reply: Option<i128>,
    last_raw_sync: &mut Option<i128>,
) {
    let dom = if case.big_corr && case.base_kind == 0 { "small-time-large-correction" } else { "ordinary" };
    let et = time_units(m.event_time) as i128;
    if m.peer_delay.is_some() {
        rep.violation("C09|peer-delay-on-e2e", &format!("step {step}: E2E port produced a peer delay measurement {m:?}"), replay.clone());
    }
    match (m.raw_sync_offset, m.raw_delay_offset) {
        (Some(rs), None) => {
            rep.ev("sync_measurement");
            let v = dur_units(rs);
            let hit = legal_sync.iter().find(|(val, _)| *val == v);
            match hit {
                None => {
                    rep.violation(
                        &format!("C09|sync-offset|not-one-exchange|{dom}"),
                        &format!("step {step} ({ev:?}): raw_sync_offset {v} units is not the IEEE expression over any single delivered Sync/Follow_Up exchange (legal: {:?})", legal_sync.iter().map(|x| x.0).collect::<Vec<_>>()),
                        replay.clone(),
                    );
                }
                Some((_, recv)) => {
                    // event_time is an unsigned Time: a negative corrected receive time cannot be
                    // carried by it, so whatever it holds then is not the exchange's time
                    let et_ok = legal_sync.iter().any(|(val, r)| *val == v && *r >= 0 && *r as u128 == time_units(m.event_time));
                    if !et_ok {
                        rep.violation(&format!("C09|sync-offset|event-time|{dom}"), &format!("step {step}: event_time {et} is not the corrected receive time {recv} of the exchange"), replay.clone());
                    }
                }
            }
            let want_off = last_reply.map(|d| v - d);
            if m.offset.map(dur_units) != want_off {
                rep.violation("C09|offset|mean-delay", &format!("step {step}: offset {:?} but raw_sync_offset {v} - last reported mean delay {last_reply:?} = {want_off:?}", m.offset.map(dur_units)), replay.clone());
            }
            if m.delay.is_some() {
                rep.violation("C09|sync-offset|carries-delay", &format!("step {step}: sync measurement carries a delay {m:?}"), replay.clone());
            }
            *last_raw_sync = Some(v);
        }
        (None, Some(rd)) => {
            rep.ev("delay_measurement");
            let v = dur_units(rd);
            match legal_delay.iter().find(|(val, _)| *val == v) {
                None => {
                    rep.violation(
                        &format!("C09|delay-offset|not-one-exchange|{dom}"),
                        &format!("step {step} ({ev:?}): raw_delay_offset {v} units is not the IEEE expression over any single Delay_Req/Delay_Resp exchange (legal: {:?})", legal_delay.iter().map(|x| x.0).collect::<Vec<_>>()),
                        replay.clone(),
                    );
                }
                Some((_, t3)) => {
                    if et != *t3 && !legal_delay.iter().any(|(val, r)| *val == v && *r == et) {
                        rep.violation("C09|delay-offset|event-time", &format!("step {step}: event_time {et} is not the request transmit time {t3}"), replay.clone());
                    }
                }
            }
            match (m.delay.map(dur_units), *last_raw_sync) {
                (Some(d), Some(rsync)) => {
                    let exact2 = rsync - v; // twice the delay
                    if (2 * d - exact2).abs() > 2 {
                        rep.violation("C09|delay|value", &format!("step {step}: delay {d} units but (raw_sync {rsync} - raw_delay {v})/2 = {}", exact2 / 2), replay.clone());
                    }
                }
                (None, None) => {}
                (got, have) => {
                    rep.violation("C09|delay|presence", &format!("step {step}: delay {got:?} with last raw sync offset {have:?}"), replay.clone());
                }
            }
            if m.offset.is_some() {
                rep.violation("C09|delay-offset|carries-offset", &format!("step {step}: delay measurement carries an offset {m:?}"), replay.clone());
            }
        }
        other => {
            rep.violation("C09|measurement|shape", &format!("step {step}: measurement with raw offsets {other:?}"), replay.clone());
        }
    }
}

/// "... from the selected parent": the selected parent moves to another port of the same master
/// clock (X:hi -> X:lo, lower port number wins the tie-break). Afterwards exchanges of the former
/// parent port must not be measured and exchanges of the new parent must be, exactly.
fn parent_port_switch(rep: &mut Report, seed: u64) {
    use statime::observability::port::PortState;
    let replay = json!({"parent_port_switch_seed": seed});
    let mut rng = StdRng::seed_from_u64(seed);
    let asym: i128 = [0i128, 1 << 40, -(1i128 << 40)][rng.gen_range(0..3)];
    let mut b = Build::new(2);
    b.rec_reply = ReplyMode::Counter { step: 1_000_003 };
    b.asymmetry_units = asym;
    b.seed = seed;
    let Ok(built) = b.build() else { return };
    let mut node = built.node;
    let Some(rec) = built.rec else { return };
    let x = clock_id(0x33).0;
    let hi: u16 = if rng.gen_bool(0.5) { 2 } else { rng.gen_range(2..60000) };
    let old = Src::new(x, hi);
    let newp = Src::new(x, 1);
    let mut body = AnnounceBody::default();
    body.gm_identity = clock_id(0x34).0;
    body.gm_priority1 = 50;
    body.steps_removed = 1;
    let mut seq_a: u16 = rng.gen();
    let mut announce = |node: &mut Node, src: &Src, seq_a: &mut u16| -> bool {
        let mut m = src.announce(*seq_a, body.clone());
        m.hdr.flags = [0, 0b0000_1000];
        *seq_a = seq_a.wrapping_add(1);
        node.call(0, Call::GeneralRx(m.encode())).is_ok()
    };
    for _ in 0..2 {
        if !announce(&mut node, &old, &mut seq_a) {
            return;
        }
    }
    if node.bmca().is_err() || node.port_state(0) != PortState::Slave {
        return;
    }
    let base = 1_700_000_000 * SEC;
    let mut now = base;
    let mut seq_s: u16 = rng.gen();
    // one Sync from `src`; returns the measurements it produced and the exact expectation
    let mut sync = |node: &mut Node, src: &Src, now: &mut u128, seq_s: &mut u16, two_step: bool, rng: &mut StdRng| -> Option<(Vec<Measurement>, i128)> {
        *now += rng.gen_range(1..(1u128 << 36));
        let t2 = *now;
        let t1 = t2 - (rng.gen_range(1000..900_000u128) << 32) - rng.gen_range(0..(1u128 << 32));
        let t1s = units_to_ts(t1);
        let before = rec.lock().unwrap().events.len();
        let seq = *seq_s;
        *seq_s = seq_s.wrapping_add(1);
        if two_step {
            node.call(0, Call::EventRx(src.sync(seq, true, Ts::default(), 0).encode(), time_from_units(t2))).ok()?;
            node.call(0, Call::GeneralRx(src.follow_up(seq, t1s, 0).encode())).ok()?;
        } else {
            node.call(0, Call::EventRx(src.sync(seq, false, t1s, 0).encode(), time_from_units(t2))).ok()?;
        }
        let g = rec.lock().unwrap();
        let ms: Vec<Measurement> = g.events[before..].iter().filter_map(|e| if let RecEvent::Measurement { m, .. } = e { Some(*m) } else { None }).collect();
        Some((ms, t2 as i128 - t1s.to_units() as i128 - asym))
    };
    // sanity: the first parent is measured exactly
    let ts1 = rng.gen_bool(0.5);
    let Some((ms, want)) = sync(&mut node, &old, &mut now, &mut seq_s, ts1, &mut rng) else { return };
    if ms.len() != 1 || ms[0].raw_sync_offset.map(dur_units) != Some(want) {
        rep.violation("C09|parent-switch|first-parent-not-measured", &format!("Sync of the selected parent X:{hi}: measurements {ms:?}, expected raw_sync_offset {want}"), replay.clone());
        return;
    }
    // the parent moves to X:1
    for _ in 0..rng.gen_range(2..4) {
        if !announce(&mut node, &newp, &mut seq_a) {
            return;
        }
    }
    if node.bmca().is_err() {
        return;
    }
    let pd = node.inst().parent_ds();
    if node.port_state(0) != PortState::Slave || pd.parent_port_identity.port_number != 1 || pd.parent_port_identity.clock_identity.0 != x {
        rep.ev("parent_switch_not_reached");
        return;
    }
    rep.ev("parent_port_switch");
    for _ in 0..3 {
        let ts_old = rng.gen_bool(0.5);
        let Some((ms, _)) = sync(&mut node, &old, &mut now, &mut seq_s, ts_old, &mut rng) else { return };
        if !ms.is_empty() {
            rep.violation("C09|parent-switch|former-parent-port-measured", &format!("parentDS names X:1 but a Sync exchange of the former parent port X:{hi} produced {ms:?}"), replay.clone());
            return;
        }
        let ts_new = rng.gen_bool(0.5);
        let Some((ms, want)) = sync(&mut node, &newp, &mut now, &mut seq_s, ts_new, &mut rng) else { return };
        rep.ev("sync_measurement");
        if ms.len() != 1 || ms[0].raw_sync_offset.map(dur_units) != Some(want) {
            rep.violation("C09|parent-switch|selected-parent-not-measured", &format!("parentDS names X:1 but its Sync exchange produced {ms:?}, expected raw_sync_offset {want}"), replay.clone());
            return;
        }
    }
}

/// Exchanges of different slave phases must not be combined either: the port is slave, sends a
/// Delay_Req, loses its parent (announce receipt timeout), becomes slave of the same parent again and
/// sends another Delay_Req. The left-overs of the first exchange (a late transmit timestamp, a
/// delayed Delay_Resp) arrive while the second one is outstanding.
fn slave_phases(rep: &mut Report, seed: u64) {
    use statime::observability::port::PortState;
    let replay = json!({"slave_phases_seed": seed});
    let mut rng = StdRng::seed_from_u64(seed);
    let asym: i128 = [0i128, 1 << 40, -(1i128 << 40)][rng.gen_range(0..3)];
    let mut b = Build::new(2);
    b.rec_reply = ReplyMode::Counter { step: 1_000_003 };
    b.asymmetry_units = asym;
    b.seed = seed;
    if rng.gen_bool(0.5) {
        b.slave_only = true;
        b.clock_class = 255;
    }
    let Ok(built) = b.build() else { return };
    let mut node = built.node;
    let Some(rec) = built.rec else { return };
    let mut parent = Remote::new(9, 1);
    let (oc, op) = node.port_identity_bytes(0);
    let own = Pid { clock: oc, port: op };
    let mut now = 1_700_000_000 * SEC + rng.gen_range(0..SEC);
    let mut delay_req = |node: &mut Node, now: &mut u128| -> Option<(u16, TimestampContext)> {
        *now += SEC / 4;
        let acts = node.call(0, Call::DelayRequestTimer).ok()?;
        for a in acts {
            if let Act::SendEvent { ctx: Some(c), data, .. } = a {
                if let Ok(m) = Msg::decode(&data) {
                    if m.hdr.msg_type == T_DELAY_REQ {
                        return Some((m.hdr.seq, c));
                    }
                }
            }
        }
        None
    };
    // phase 1
    if make_slave(&mut node, 0, &mut parent).is_err() || node.port_state(0) != PortState::Slave {
        return;
    }
    let t1 = units_to_ts(now - (100_000u128 << 32));
    if node.call(0, Call::EventRx(parent.src.sync(1, false, t1, 0).encode(), time_from_units(now))).is_err() {
        return;
    }
    let Some((seq1, ctx1)) = delay_req(&mut node, &mut now) else { return };
    let t3_old = now + rng.gen_range(0..(1u128 << 34));
    let t4_old = units_to_ts(t3_old + (rng.gen_range(50_000..900_000u128) << 32));
    let report_old_before_leaving = rng.gen_bool(0.3);
    let mut ctx1 = Some(ctx1);
    if report_old_before_leaving {
        if node.call(0, Call::TxTimestamp(ctx1.take().unwrap(), time_from_units(t3_old))).is_err() {
            return;
        }
    }
    // the parent is lost ...
    if node.call(0, Call::AnnounceReceiptTimer).is_err() || node.port_state(0) == PortState::Slave {
        return;
    }
    // ... and found again
    now += 2 * SEC;
    if make_slave(&mut node, 0, &mut parent).is_err() || node.port_state(0) != PortState::Slave {
        rep.ev("slave_phases_not_reached");
        return;
    }
    let Some((seq2, ctx2)) = delay_req(&mut node, &mut now) else { return };
    rep.ev("second_slave_phase");
    let t3_new = now + rng.gen_range(0..(1u128 << 34)) + (7 * SEC);
    let t4_new = units_to_ts(t3_new + (rng.gen_range(50_000..900_000u128) << 32));
    let before = rec.lock().unwrap().events.len();
    // left-overs of the first exchange and the messages of the second one, in a seeded order
    let mut evs: Vec<u8> = vec![0, 1, 2, 3]; // 0 late tx ts of #1, 1 delayed resp of #1, 2 tx ts of #2, 3 resp of #2
    for i in (1..evs.len()).rev() {
        evs.swap(i, rng.gen_range(0..=i));
    }
    let mut ctx2 = Some(ctx2);
    for e in evs {
        let r = match e {
            0 => match ctx1.take() {
                Some(c) => node.call(0, Call::TxTimestamp(c, time_from_units(t3_old))).map(|_| ()),
                None => Ok(()),
            },
            1 => node.call(0, Call::GeneralRx(parent.src.delay_resp(seq1, t4_old, own, 0).encode())).map(|_| ()),
            2 => node.call(0, Call::TxTimestamp(ctx2.take().unwrap(), time_from_units(t3_new))).map(|_| ()),
            _ => node.call(0, Call::GeneralRx(parent.src.delay_resp(seq2, t4_new, own, 0).encode())).map(|_| ()),
        };
        if r.is_err() {
            return;
        }
    }
    let want = t3_new as i128 - t4_new.to_units() as i128 - asym;
    let g = rec.lock().unwrap();
    for ev in &g.events[before..] {
        if let RecEvent::Measurement { m, .. } = ev {
            if let Some(rd) = m.raw_delay_offset {
                rep.ev("delay_measurement");
                // no Sync exchange has completed in this slave phase: there is nothing to pair the
                // delay exchange with, the mean path delay is still unknown
                if let Some(d) = m.delay {
                    rep.violation(
                        "C09|slave-phases|delay-from-sync-of-earlier-phase",
                        &format!("second slave phase: the first Delay exchange completed before any Sync of this phase, but the measurement carries delay {} units (built with the raw sync offset of the earlier phase)", dur_units(d)),
                        replay.clone(),
                    );
                }
                if dur_units(rd) != want {
                    rep.violation(
                        "C09|slave-phases|delay-offset-not-one-exchange",
                        &format!("second slave phase (Delay_Req seq {seq2}, first phase used seq {seq1}): raw_delay_offset {} units, the only complete exchange of this phase gives {want}; left-overs of the first phase (t3 {t3_old}, t4 {:?}) were around", dur_units(rd), t4_old),
                        replay.clone(),
                    );
                }
            }
        }
    }
}

/// The port was master and sent Syncs whose transmit timestamps are reported late - after the BMCA
/// has made it slave and a Delay_Req is outstanding. Sync and Delay_Req sequence ids are counted
/// separately per port and coincide here. The delay measurement must be built from the
/// Delay_Req's own timestamp.
fn late_sync_timestamp_after_role_change(rep: &mut Report, seed: u64) {
    use statime::observability::port::PortState;
    let replay = json!({"late_sync_timestamp_seed": seed});
    let mut rng = StdRng::seed_from_u64(seed);
    let mut b = Build::new(2);
    b.rec_reply = ReplyMode::Counter { step: 1_000_003 };
    b.seed = seed;
    let Ok(built) = b.build() else { return };
    let mut node = built.node;
    let Some(rec) = built.rec else { return };
    let (oc, op) = node.port_identity_bytes(0);
    let own = Pid { clock: oc, port: op };
    let mut now = 1_700_000_000 * SEC + rng.gen_range(0..SEC);
    if node.call(0, Call::AnnounceReceiptTimer).is_err() || node.port_state(0) != PortState::Master {
        return;
    }
    // n_sync Syncs as master; the timestamps of the last `held` of them are not reported yet
    let n_sync = rng.gen_range(1..=4usize);
    let held = rng.gen_range(1..=n_sync);
    let mut sync_ctx: Vec<(u16, TimestampContext)> = vec![];
    for k in 0..n_sync {
        now += SEC / 8;
        let Ok(acts) = node.call(0, Call::SyncTimer) else { return };
        for a in acts {
            if let Act::SendEvent { ctx: Some(c), data, .. } = a {
                if let Ok(m) = Msg::decode(&data) {
                    if m.hdr.msg_type == T_SYNC {
                        if k + held >= n_sync {
                            sync_ctx.push((m.hdr.seq, c));
                        } else if node.call(0, Call::TxTimestamp(c, time_from_units(now))).is_err() {
                            return;
                        }
                    }
                }
            }
        }
    }
    let sync_tx_time = now - (3 * SEC / 2);
    let mut parent = Remote::new(9, 1);
    now += SEC;
    if make_slave(&mut node, 0, &mut parent).is_err() || node.port_state(0) != PortState::Slave {
        return;
    }
    // Delay_Reqs until one carries the sequence id of a held Sync (the first does when all
    // timestamps but the last were reported... or none: ids are what they are, the held ones are tried all)
    let mut reqs: Vec<(u16, TimestampContext)> = vec![];
    for _ in 0..n_sync {
        now += SEC / 4;
        let Ok(acts) = node.call(0, Call::DelayRequestTimer) else { return };
        for a in acts {
            if let Act::SendEvent { ctx: Some(c), data, .. } = a {
                if let Ok(m) = Msg::decode(&data) {
                    if m.hdr.msg_type == T_DELAY_REQ {
                        reqs.push((m.hdr.seq, c));
                    }
                }
            }
        }
        let Some((seq, _)) = reqs.last() else { return };
        if sync_ctx.iter().any(|(s, _)| s == seq) {
            break;
        }
        // not a coinciding id yet: complete this exchange normally and go on
        let (seq, c) = reqs.pop().unwrap();
        let t3 = now;
        let t4 = units_to_ts(t3 + (100_000u128 << 32));
        if node.call(0, Call::TxTimestamp(c, time_from_units(t3))).is_err() || node.call(0, Call::GeneralRx(parent.src.delay_resp(seq, t4, own, 0).encode())).is_err() {
            return;
        }
    }
    let Some((seq, req_ctx)) = reqs.pop() else { return };
    let coincide = sync_ctx.iter().any(|(s, _)| *s == seq);
    rep.ev("late_sync_timestamp_scenario");
    if coincide {
        rep.ev("late_sync_timestamp_with_the_sequence_id_of_the_outstanding_delay_req");
    }
    let t3 = now + rng.gen_range(0..(1u128 << 34));
    let t4 = units_to_ts(t3 + (rng.gen_range(50_000..900_000u128) << 32));
    let before = rec.lock().unwrap().events.len();
    // the late Sync timestamps, the Delay_Req timestamp and the Delay_Resp in a seeded order (the
    // response last or second to last)
    let late_first = rng.gen_bool(0.7);
    let mut req_ctx = Some(req_ctx);
    if !late_first {
        if node.call(0, Call::TxTimestamp(req_ctx.take().unwrap(), time_from_units(t3))).is_err() {
            return;
        }
    }
    for (_, c) in sync_ctx {
        if node.call(0, Call::TxTimestamp(c, time_from_units(sync_tx_time))).is_err() {
            return;
        }
    }
    if let Some(c) = req_ctx.take() {
        if node.call(0, Call::TxTimestamp(c, time_from_units(t3))).is_err() {
            return;
        }
    }
    if node.call(0, Call::GeneralRx(parent.src.delay_resp(seq, t4, own, 0).encode())).is_err() {
        return;
    }
    let want = t3 as i128 - t4.to_units() as i128;
    let g = rec.lock().unwrap();
    let mut n = 0;
    for ev in &g.events[before..] {
        if let RecEvent::Measurement { m, .. } = ev {
            if let Some(rd) = m.raw_delay_offset {
                n += 1;
                rep.ev("delay_measurement");
                if dur_units(rd) != want {
                    rep.violation(
                        "C09|late-sync-timestamp|delay-offset-not-one-exchange",
                        &format!("Delay_Req seq {seq} sent at {t3}, answered with {t4:?}: raw_delay_offset {} units, expected {want}; transmit timestamps ({sync_tx_time}) of Syncs the port sent while it was master were reported in between", dur_units(rd)),
                        replay.clone(),
                    );
                }
            }
        }
    }
    if n != 1 {
        rep.violation("C09|late-sync-timestamp|measurement-count", &format!("{n} delay measurements for one complete Delay_Req/Delay_Resp exchange (seq {seq}) around late Sync transmit timestamps"), replay.clone());
    }
}

fn alphabet_sync() -> Vec<E> {
    vec![E::S(0), E::F(0), E::S(1), E::F(1), E::S(2), E::F(2)]
}

fn full_alphabet() -> Vec<E> {
    vec![E::S(0), E::F(0), E::S(1), E::F(1), E::S(2), E::F(2), E::SQ(0), E::FQ(1), E::T, E::X, E::R(0), E::R(1), E::ROld, E::RQ, E::RO, E::U]
}

pub fn run(rep: &mut Report, tier: &str, seed: u64, shard: (u32, u32), replay: Option<&str>) {
    rep.rule = "event scripts over the messages of three Sync exchanges (two-step / one-step / mixed) and Delay_Req exchanges of a slave port: every sequence up to a length bound over the six Sync/Follow_Up messages is enumerated, delay events, foreign-master copies, late/duplicate/other-requester responses are interleaved by seeded sampling; unique random timestamps and corrections per exchange; distinct = distinct (script, parameters); non-trivial = at least one measurement reached the filter".into();
    rep.require(&["sync_measurement", "delay_measurement", "stray_follow_up_for_one_step_sync", "parent_port_switch", "second_slave_phase", "late_sync_timestamp_with_the_sequence_id_of_the_outstanding_delay_req", "message_of_the_parent_port_in_another_domain"]);
    if let Some(path) = replay {
        let v: serde_json::Value = serde_json::from_str(&std::fs::read_to_string(path).unwrap()).unwrap();
        if let Ok(c) = serde_json::from_value::<Case>(v["case"].clone()) {
            run_case(rep, &c, true);
        }
        println!("replay: {} finding(s)", rep.findings.len());
        for f in rep.findings.values() {
            println!("  {}", f.what);
        }
        return;
    }
    let mut rng = StdRng::seed_from_u64(seed ^ 0xc09 ^ ((shard.0 as u64) << 40));
    let mut count = |rep: &mut Report, case: &Case| {
        let before = rep.events.get("sync_measurement").copied().unwrap_or(0) + rep.events.get("delay_measurement").copied().unwrap_or(0);
        run_case(rep, case, false);
        let after = rep.events.get("sync_measurement").copied().unwrap_or(0) + rep.events.get("delay_measurement").copied().unwrap_or(0);
        rep.evaluations += 1;
        if after > before {
            rep.distinct_case(&format!("{case:?}"));
        }
    };
    // exhaustive enumeration of sync-message sequences
    let max_len = if tier == "thorough" { 7 } else { 6 };
    let alpha = alphabet_sync();
    let mut enumerated = 0u64;
    let mut idx = 0u64;
    for len in 1..=max_len {
        let total = (alpha.len() as u64).pow(len as u32);
        for code in 0..total {
            idx += 1;
            if idx % shard.1 as u64 != shard.0 as u64 {
                continue;
            }
            let mut c = code;
            let mut script = Vec::with_capacity(len + 2);
            // a delay exchange first so that offset (needs mean delay) is populated in half of the runs
            for _ in 0..len {
                script.push(alpha[(c % alpha.len() as u64) as usize]);
                c /= alpha.len() as u64;
            }
            let variant = (code % 3) as u8;
            let two_step = match variant {
                0 => [true, true, true],
                1 => [false, false, false],
                _ => [true, false, true],
            };
            let case = Case {
                seed: seed.wrapping_mul(7919).wrapping_add(code).wrapping_add((len as u64) << 48),
                script,
                two_step,
                seq_base: [0u16, 65534, 65535, 1000][(code / 3 % 4) as usize],
                base_kind: (code / 12 % 5) as u8,
                asym_kind: (code / 60 % 3) as u8,
                big_corr: false,
                stray_fu: variant != 0,
            };
            count(rep, &case);
            enumerated += 1;
        }
    }
    rep.extra.insert("enumerated_sync_sequences".into(), json!(enumerated));
    rep.extra.insert("enumerated_max_len".into(), json!(max_len));
    // seeded interleavings with delay exchanges and noise
    let n: u64 = if tier == "thorough" { 400_000 } else { 60_000 };
    let budget = Budget::new(n, if tier == "thorough" { 600.0 } else { 20.0 });
    let full = full_alphabet();
    let mut i = 0;
    while budget.left(i) {
        i += 1;
        let len = rng.gen_range(3..=24);
        let mut script = vec![];
        for _ in 0..len {
            script.push(full[rng.gen_range(0..full.len())]);
        }
        if rng.gen_bool(0.5) {
            // make sure a complete delay exchange is in there
            script.insert(0, E::T);
            script.insert(rng.gen_range(1..=script.len()), E::X);
            script.push(E::R(0));
        }
        let case = Case {
            seed: rng.gen(),
            script,
            two_step: [rng.gen(), rng.gen(), rng.gen()],
            seq_base: [0u16, 65534, 65535, rng.gen()][rng.gen_range(0..4)],
            base_kind: rng.gen_range(0..5),
            asym_kind: rng.gen_range(0..3),
            big_corr: rng.gen_bool(0.3),
            stray_fu: rng.gen_bool(0.5),
        };
        if i <= 2 {
            rep.sample(serde_json::to_value(&case).unwrap());
        }
        count(rep, &case);
        if i % 200 == 0 {
            parent_port_switch(rep, rng.gen());
            slave_phases(rep, rng.gen());
            late_sync_timestamp_after_role_change(rep, rng.gen());
        }
    }
}
