//! C13 - clock control commands stay finite and within configured bounds.
//! Oracle: assertions inside a recording clock, parameterised by the filter configuration.
//! Filters are driven directly through the public `Filter` trait and through real ports.

use rand::rngs::StdRng;
use rand::{Rng, SeedableRng};
use serde_json::json;
use statime::config::TimePropertiesDS;
use statime::filters::{BasicFilter, Filter, KalmanConfiguration, KalmanFilter};
use statime::port::Measurement;
use statime::time::{Duration, Time};
use statime::Clock;

use crate::drive::*;
use crate::node::*;
use crate::refcodec::*;
use crate::report::*;

#[derive(Clone, Debug, PartialEq)]
enum Cmd {
    Freq(f64),
    Step(i128),
}

#[derive(Clone, Copy, Debug, serde::Serialize, serde::Deserialize, PartialEq)]
pub enum TimeMode {
    /// returns the harness' notion of "now" (follows event times and applied steps)
    Consistent,
    /// returns a time up to a few seconds behind "now" (a step was applied while a timestamped
    /// packet was in flight - see DESIGN D6)
    Lagging,
    /// returns a time far ahead
    Ahead,
}

struct ScriptClock {
    now: u128,
    mode: TimeMode,
    log: Vec<(Cmd, bool)>,
    fail_every: u32,
    calls: u32,
    lag: u128,
}

impl ScriptClock {
    fn ret(&self) -> Time {
        match self.mode {
            TimeMode::Consistent => time_from_units(self.now),
            TimeMode::Lagging => time_from_units(self.now.saturating_sub(self.lag)),
            TimeMode::Ahead => time_from_units(self.now + 3600 * SEC),
        }
    }
    fn fail(&mut self) -> bool {
        self.calls += 1;
        self.fail_every > 0 && self.calls % self.fail_every == 0
    }
}

impl Clock for ScriptClock {
    type Error = ();
    fn now(&self) -> Time {
        time_from_units(self.now)
    }
    fn step_clock(&mut self, offset: Duration) -> Result<Time, ()> {
        let f = self.fail();
        self.log.push((Cmd::Step(dur_units(offset)), !f));
        if f {
            return Err(());
        }
        let n = self.now as i128 + dur_units(offset);
        self.now = n.max(0) as u128;
        Ok(self.ret())
    }
    fn set_frequency(&mut self, ppm: f64) -> Result<Time, ()> {
        let f = self.fail();
        self.log.push((Cmd::Freq(ppm), !f));
        if f {
            return Err(());
        }
        Ok(self.ret())
    }
    fn set_properties(&mut self, _t: &TimePropertiesDS) -> Result<(), ()> {
        Ok(())
    }
}

#[derive(Clone, Debug, serde::Serialize, serde::Deserialize)]
pub struct KCfg {
    pub step_threshold_s: f64,
    pub deadzone: f64,
    pub steer_time_s: f64,
    pub max_steer: f64,
    pub max_freq_offset: f64,
    pub hysteresis: u8,
    pub diff_boundary: usize,
    pub stat_boundary: usize,
}

impl KCfg {
    fn default() -> KCfg {
        KCfg { step_threshold_s: 1e-3, deadzone: 0.0, steer_time_s: 2.0, max_steer: 200.0, max_freq_offset: 400.0, hysteresis: 16, diff_boundary: 4, stat_boundary: 8 }
    }
    fn to_cfg(&self) -> KalmanConfiguration {
        KalmanConfiguration {
            step_threshold: Duration::from_seconds(self.step_threshold_s),
            deadzone: self.deadzone,
            steer_time: Duration::from_seconds(self.steer_time_s),
            max_steer: self.max_steer,
            max_freq_offset: self.max_freq_offset,
            precision_hysteresis: self.hysteresis,
            difference_estimation_boundary: self.diff_boundary,
            statistical_estimation_boundary: self.stat_boundary,
            ..KalmanConfiguration::default()
        }
    }
}

#[derive(Clone, Debug, serde::Serialize, serde::Deserialize)]
pub enum MKind {
    Sync,
    Delay,
    Peer,
    SyncWithOffset,
    Update,
}

#[derive(Clone, Debug, serde::Serialize, serde::Deserialize)]
pub struct MStep {
    pub kind: MKind,
    /// event time delta in units relative to the previous event time (may be negative / zero)
    #[serde(with = "crate::report::s_i128")]
    pub dt: i128,
    /// offset value in units
    #[serde(with = "crate::report::s_i128")]
    pub value: i128,
}

#[derive(Clone, Debug, serde::Serialize, serde::Deserialize)]
pub struct Case {
    pub kalman: Option<KCfg>,
    pub basic_gain: f64,
    pub mode: TimeMode,
    pub fail_every: u32,
    #[serde(with = "crate::report::s_u128")]
    pub lag: u128,
    pub steps: Vec<MStep>,
}

fn clock_class(case: &Case) -> &'static str {
    match case.mode {
        TimeMode::Consistent => "clock=consistent",
        TimeMode::Lagging => "clock=lagging",
        TimeMode::Ahead => "clock=ahead",
    }
}

fn class_of_steps(case: &Case) -> String {
    // precondition class for signatures
    let mut back = false;
    let mut equal = false;
    for s in &case.steps {
        if s.dt < 0 {
            back = true;
        }
        if s.dt == 0 {
            equal = true;
        }
    }
    format!(
        "{}{}{}",
        match case.mode {
            TimeMode::Consistent => "clock=consistent",
            TimeMode::Lagging => "clock=lagging",
            TimeMode::Ahead => "clock=ahead",
        },
        if back { ",event-time-backwards" } else { "" },
        if equal { ",equal-event-times" } else { "" }
    )
}

fn judge_log(rep: &mut Report, case: &Case, log: &[(Cmd, bool)], after_demob_from: Option<usize>, filter: &str, replay: &serde_json::Value) {
    let cls = class_of_steps(case);
    for (i, (c, _ok)) in log.iter().enumerate() {
        match c {
            Cmd::Freq(x) => {
                rep.ev("set_frequency");
                if !x.is_finite() {
                    rep.violation(&format!("C13|{filter}|set_frequency-non-finite"), &format!("{filter}: set_frequency({x}) (command #{i}) [{cls}]"), replay.clone());
                } else if let Some(k) = &case.kalman {
                    if filter == "kalman" && x.abs() > k.max_freq_offset * (1.0 + 1e-9) + 1e-12 {
                        rep.violation(&format!("C13|{filter}|set_frequency-out-of-bound"), &format!("{filter}: set_frequency({x}) exceeds max_freq_offset {} (command #{i}) [{cls}]", k.max_freq_offset), replay.clone());
                    }
                }
            }
            Cmd::Step(d) => {
                rep.ev("step_clock");
                if let Some(k) = &case.kalman {
                    if filter == "kalman" {
                        let thr = (k.step_threshold_s * 1e9 * 4294967296.0) as i128;
                        if d.abs() < thr - (1 << 33) {
                            rep.violation(&format!("C13|{filter}|step-below-threshold"), &format!("{filter}: step_clock({} ns) below step threshold {} s [{cls}]", units_to_ns_f64(*d), k.step_threshold_s), replay.clone());
                        }
                    }
                }
            }
        }
    }
    if let Some(from) = after_demob_from {
        let n = log.len() - from;
        rep.ev("demobilize");
        if n > 1 {
            rep.violation(&format!("C13|{filter}|demobilize-more-than-one-command"), &format!("{filter}: {n} clock commands during/after demobilize: {:?}", &log[from..]), replay.clone());
        }
        if let Some((Cmd::Step(_), _)) = log.get(from) {
            rep.violation(&format!("C13|{filter}|demobilize-steps"), &format!("{filter}: demobilize stepped the clock"), replay.clone());
        }
    }
}

fn measurement(kind: &MKind, t: u128, v: i128, last_sync: &mut i128) -> Option<Measurement> {
    let mut m = Measurement::default();
    m.event_time = time_from_units(t);
    match kind {
        MKind::Sync => {
            m.raw_sync_offset = Some(dur_from_units(v));
            *last_sync = v;
        }
        MKind::SyncWithOffset => {
            m.raw_sync_offset = Some(dur_from_units(v));
            m.offset = Some(dur_from_units(v));
            *last_sync = v;
        }
        MKind::Delay => {
            m.raw_delay_offset = Some(dur_from_units(v));
            m.delay = Some(dur_from_units((*last_sync - v) / 2));
        }
        MKind::Peer => {
            m.peer_delay = Some(dur_from_units(v));
        }
        MKind::Update => return None,
    }
    Some(m)
}

pub fn run_case(rep: &mut Report, case: &Case) {
    let replay = serde_json::to_value(case).unwrap();
    let cls = class_of_steps(case);
    // ---- Kalman
    if let Some(k) = &case.kalman {
        let mut clock = ScriptClock { now: 1_000_000_000_000 * SEC, mode: case.mode, log: vec![], fail_every: case.fail_every, calls: 0, lag: case.lag };
        let cfg = k.to_cfg();
        let r = guarded(|| {
            let mut f = KalmanFilter::new(cfg);
            let mut t = clock.now;
            let mut last_sync = 0i128;
            for s in &case.steps {
                let nt = t as i128 + s.dt;
                t = nt.max(0) as u128;
                if s.dt > 0 {
                    clock.now = (clock.now as i128 + s.dt).max(0) as u128;
                }
                let now_before = clock.now;
                match measurement(&s.kind, t, s.value, &mut last_sync) {
                    Some(m) => {
                        let _ = f.measurement(m, &mut clock);
                    }
                    None => {
                        let _ = f.update(&mut clock);
                    }
                }
                // timestamps taken after a step are in the stepped timescale
                t = (t as i128 + (clock.now as i128 - now_before as i128)).max(0) as u128;
                if std::env::var("VP_C13_TRACE").is_ok() {
                    eprintln!("trace: {:?} dt={:.6}s value={:.9}s t={:.6}s clock_log={:?}", s.kind, s.dt as f64 / 4294967296e9, s.value as f64 / 4294967296e9, t as f64 / 4294967296e9, clock.log.iter().rev().take(2).collect::<Vec<_>>());
                }
                let e = f.current_estimates();
                let _ = (e.offset_from_master, e.mean_delay);
                if std::env::var("VP_C13_TRACE").is_ok() {
                    eprintln!("trace:    estimates offset={:?} delay={:?}", e.offset_from_master, e.mean_delay);
                }
            }
            let before = clock.log.len();
            f.demobilize(&mut clock);
            before
        });
        match r {
            Ok(before) => judge_log(rep, case, &clock.log, Some(before), "kalman", &replay),
            Err(p) => {
                judge_log(rep, case, &clock.log, None, "kalman", &replay);
                rep.violation(&format!("C13|kalman|panic|{}|{}|{}", p.site(), p.class(), clock_class(case)), &format!("KalmanFilter panicked: {} [{cls}]", p.describe()), replay.clone());
            }
        }
    }
    // ---- Basic
    {
        let mut clock = ScriptClock { now: 1_000_000_000_000 * SEC, mode: case.mode, log: vec![], fail_every: case.fail_every, calls: 0, lag: case.lag };
        let gain = case.basic_gain;
        let r = guarded(|| {
            let mut f = BasicFilter::new(gain);
            let mut t = clock.now;
            let mut last_sync = 0i128;
            for s in &case.steps {
                let nt = t as i128 + s.dt;
                t = nt.max(0) as u128;
                if s.dt > 0 {
                    clock.now = (clock.now as i128 + s.dt).max(0) as u128;
                }
                let kind = match s.kind {
                    MKind::Sync => MKind::SyncWithOffset,
                    ref k => k.clone(),
                };
                let now_before = clock.now;
                match measurement(&kind, t, s.value, &mut last_sync) {
                    Some(m) => {
                        let _ = f.measurement(m, &mut clock);
                    }
                    None => {
                        let _ = f.update(&mut clock);
                    }
                }
                t = (t as i128 + (clock.now as i128 - now_before as i128)).max(0) as u128;
            }
            let before = clock.log.len();
            f.demobilize(&mut clock);
            before
        });
        match r {
            Ok(before) => judge_log(rep, case, &clock.log, Some(before), "basic", &replay),
            Err(p) => {
                judge_log(rep, case, &clock.log, None, "basic", &replay);
                rep.violation(&format!("C13|basic|panic|{}|{}|{}", p.site(), p.class(), clock_class(case)), &format!("BasicFilter panicked: {} at {} [{cls}]", p.message, p.location), replay.clone());
            }
        }
    }
}

fn log_lattice(rng: &mut StdRng) -> i128 {
    // 0 .. +-1e9 s on a log lattice, in units
    let mag: f64 = match rng.gen_range(0..10) {
        0 => 0.0,
        1 => 1e-9,
        2 => 10f64.powf(rng.gen_range(-9.0..-3.0)),
        3 => 10f64.powf(rng.gen_range(-3.0..0.0)),
        4 => 10f64.powf(rng.gen_range(0.0..9.0)),
        5 => 1e9,
        6 => 1e-3,
        7 => 0.999e-3,
        _ => 10f64.powf(rng.gen_range(-9.0..2.0)),
    };
    let u = (mag * 1e9 * 4294967296.0) as i128;
    if rng.gen_bool(0.5) {
        u
    } else {
        -u
    }
}

fn gen_case(rng: &mut StdRng) -> Case {
    let kalman = if rng.gen_bool(0.5) || std::env::var("VP_C13_DEFAULT_ONLY").is_ok() {
        KCfg::default()
    } else {
        let mf = [1e-3, 0.5, 10.0, 400.0, 1e4][rng.gen_range(0..5)];
        KCfg {
            step_threshold_s: [1e-6, 1e-3, 0.1, 10.0][rng.gen_range(0..4)],
            deadzone: [0.0, 1.0, 5.0][rng.gen_range(0..3)],
            steer_time_s: [1e-3, 0.5, 2.0, 100.0][rng.gen_range(0..4)],
            max_steer: [1e-3, 200.0, 1e5][rng.gen_range(0..3)],
            max_freq_offset: mf,
            hysteresis: [0u8, 1, 16, 127][rng.gen_range(0..4)],
            diff_boundary: [1usize, 4, 8][rng.gen_range(0..3)],
            stat_boundary: [2usize, 8, 32][rng.gen_range(0..3)],
        }
    };
    let n = rng.gen_range(1..=64);
    let style = rng.gen_range(0..8);
    let base = log_lattice(rng);
    let mut steps = vec![];
    for i in 0..n {
        let kind = match style {
            0 => MKind::Sync,
            1 => [MKind::Sync, MKind::Delay][i % 2].clone(),
            2 => MKind::Peer,
            3 => [MKind::Sync, MKind::Delay, MKind::Peer, MKind::Update][rng.gen_range(0..4)].clone(),
            _ => [MKind::Sync, MKind::Sync, MKind::Delay, MKind::Update][rng.gen_range(0..4)].clone(),
        };
        let dt: i128 = match rng.gen_range(0..10) {
            0 => 0,
            1 => -((rng.gen_range(0..5_000_000_000u64) as i128) << 32),
            2 => 1,
            3 => (125_000_000i128) << 32,
            _ => (rng.gen_range(1..4_000_000_000u64) as i128) << 32,
        };
        let dt = if style == 5 { 0 } else { dt };
        let value = match style {
            5 | 6 => base, // zero-variance sample set
            _ => match rng.gen_range(0..4) {
                0 => base,
                1 => base + rng.gen_range(-(1i128 << 44)..(1i128 << 44)),
                _ => log_lattice(rng),
            },
        };
        steps.push(MStep { kind, dt, value });
    }
    Case {
        kalman: Some(kalman),
        basic_gain: [0.0, 0.25, 1.0][rng.gen_range(0..3)],
        mode: [TimeMode::Consistent, TimeMode::Consistent, TimeMode::Consistent, TimeMode::Lagging, TimeMode::Ahead][rng.gen_range(0..5)],
        fail_every: [0u32, 0, 2, 3, 7][rng.gen_range(0..5)],
        lag: (rng.gen_range(0..3_000_000_000u64) as u128) << 32,
        steps,
    }
}

/// Through a real port: a slave with the Kalman servo that stops being slave must issue at most
/// one further (bounded) frequency command.
fn port_demobilize(rep: &mut Report, seed: u64) {
    let replay = json!({"port_demobilize_seed": seed});
    let mut rng = StdRng::seed_from_u64(seed);
    let mut b = Build::new(5);
    b.filter = Some(FilterCfg::Kalman(KalmanConfiguration::default()));
    b.seed = seed;
    let Ok(built) = b.build() else { return };
    let mut node = built.node;
    let mut remote = Remote::new(7, 1);
    if make_slave(&mut node, 0, &mut remote).is_err() {
        return;
    }
    let clock = node.clock.clone();
    let mut t = 2_000 * SEC;
    for k in 0..rng.gen_range(2..30u16) {
        t += SEC;
        clock.lock().unwrap().set_true(t);
        let off = rng.gen_range(0..2_000_000u128) << 32;
        let origin = Ts { secs: ((t - off) / SEC) as u64, nanos: (((t - off) % SEC) >> 32) as u32 };
        let m = remote.src.sync(k, false, origin, 0);
        let rx = clock.lock().unwrap().read();
        if node.call(0, Call::EventRx(m.encode(), time_from_units(rx))).is_err() {
            return;
        }
    }
    let before = clock.lock().unwrap().log.len();
    let how = rng.gen_range(0..2);
    let r = if how == 0 { node.call(0, Call::AnnounceReceiptTimer).map(|_| ()) } else { node.set_slave_only(true).and_then(|_| node.bmca().map(|_| ())) };
    if let Err(p) = r {
        rep.violation(&format!("C13|port|panic|{}|{}", p.site(), p.class()), &format!("leaving slave state panicked: {}", p.message), replay);
        return;
    }
    if node.port_state(0) == statime::observability::port::PortState::Slave {
        return;
    }
    // a few more calls after leaving slave: must be silent on the clock
    for _ in 0..5 {
        let _ = node.call(0, Call::FilterUpdateTimer);
        let m = remote.src.sync(999, false, Ts { secs: 10, nanos: 0 }, 0);
        let _ = node.call(0, Call::EventRx(m.encode(), time_from_units(t)));
        if node.dead {
            return;
        }
    }
    let log = clock.lock().unwrap().log.clone();
    let after: Vec<_> = log[before..].iter().filter(|c| !matches!(c.kind, ClockCallKind::SetProperties(_))).collect();
    rep.ev("port_demobilize");
    if after.len() > 1 {
        rep.violation("C13|port|demobilize-more-than-one-command", &format!("{} clock commands after the port stopped being slave: {:?}", after.len(), after), replay.clone());
    }
    for c in after {
        match &c.kind {
            ClockCallKind::SetFrequency(x) => {
                if !x.is_finite() || x.abs() > 400.0 * (1.0 + 1e-9) {
                    rep.violation("C13|port|demobilize-out-of-bound", &format!("final set_frequency({x})"), replay.clone());
                }
            }
            ClockCallKind::StepClock(_) => rep.violation("C13|port|demobilize-steps", "step_clock after leaving slave", replay.clone()),
            _ => {}
        }
    }
}

/// Through a real peer-to-peer port that is not (or no longer) slave: peer delay exchanges keep
/// running in every port state and their measurements reach the port's (fresh) Kalman servo;
/// that servo must stay silent on the clock (at most the one final command of the old servo).
fn port_p2p_nonslave(rep: &mut Report, seed: u64) {
    use statime::observability::port::PortState;
    let replay = json!({"port_p2p_nonslave_seed": seed});
    let mut rng = StdRng::seed_from_u64(seed);
    let mut b = Build::new(5);
    b.p2p = true;
    b.filter = Some(FilterCfg::Kalman(KalmanConfiguration::default()));
    b.seed = seed;
    let start = rng.gen_range(0..3u8);
    let Ok(built) = b.build() else { return };
    let mut node = built.node;
    let mut remote = Remote::new(7, 1);
    let clock = node.clock.clone();
    let mut t = 3_000 * SEC;
    clock.lock().unwrap().set_true(t);
    let (oc, op) = node.port_identity_bytes(0);
    let own = Pid { clock: oc, port: op };
    let responder = Src::new(clock_id(20).0, 1);

    // one complete single-responder exchange at the current time; returns false if the port died
    let mut exchange = |node: &mut Node, t: &mut u128, rng: &mut StdRng| -> bool {
        *t += rng.gen_range(1..(1u128 << 36));
        clock.lock().unwrap().set_true(*t);
        let Ok(acts) = node.call(0, Call::DelayRequestTimer) else { return false };
        for a in acts {
            if let Act::SendEvent { ctx: Some(ctx), data, .. } = a {
                let Ok(m) = Msg::decode(&data) else { continue };
                if m.hdr.msg_type != T_PDELAY_REQ {
                    continue;
                }
                let t1 = *t;
                let d = rng.gen_range(0..2_000_000u128) << 32;
                let t2 = t1 + d;
                let t3 = t2 + (rng.gen_range(0..1_000_000u128) << 32);
                let t4 = t3 + d;
                if node.call(0, Call::TxTimestamp(ctx, time_from_units(t1))).is_err() {
                    return false;
                }
                let ts = |u: u128| Ts { secs: ((u >> 32) / 1_000_000_000) as u64, nanos: ((u >> 32) % 1_000_000_000) as u32 };
                let two_step = rng.gen_bool(0.5);
                let r = responder.pdelay_resp(m.hdr.seq, two_step, ts(t2), own, if two_step { 0 } else { ((t3 - t2) >> 16) as i64 });
                *t = t4;
                clock.lock().unwrap().set_true(*t);
                if node.call(0, Call::EventRx(r.encode(), time_from_units(t4))).is_err() {
                    return false;
                }
                if two_step {
                    let f = responder.pdelay_resp_fu(m.hdr.seq, ts(t3), own, 0);
                    if node.call(0, Call::GeneralRx(f.encode())).is_err() {
                        return false;
                    }
                }
            }
        }
        !node.dead
    };

    let setup = match start {
        0 => Ok(()),
        1 => force_master(&mut node, 0).map(|_| ()),
        _ => make_slave(&mut node, 0, &mut remote).map(|_| ()),
    };
    if setup.is_err() {
        return;
    }
    let mut allowed = 0usize;
    let mut before_leave = None;
    if start == 2 {
        if node.port_state(0) != PortState::Slave {
            return;
        }
        // slave phase: syncs and peer delay exchanges feed the servo
        for k in 0..rng.gen_range(2..12u16) {
            if !exchange(&mut node, &mut t, &mut rng) {
                return;
            }
            t += SEC;
            clock.lock().unwrap().set_true(t);
            let off = rng.gen_range(0..2_000_000u128) << 32;
            let origin = Ts { secs: ((t - off) / SEC) as u64, nanos: (((t - off) % SEC) >> 32) as u32 };
            let m = remote.src.sync(k, false, origin, 0);
            if node.call(0, Call::EventRx(m.encode(), time_from_units(t))).is_err() {
                return;
            }
        }
        before_leave = Some(clock.lock().unwrap().log.len());
        if rng.gen_bool(0.5) {
            if node.call(0, Call::AnnounceReceiptTimer).is_err() || node.port_state(0) == PortState::Slave {
                return;
            }
        } else {
            // the port stops being slave because two responders answer one of its requests
            t += SEC / 8;
            clock.lock().unwrap().set_true(t);
            let Ok(acts) = node.call(0, Call::DelayRequestTimer) else { return };
            let mut req = None;
            for a in acts {
                if let Act::SendEvent { ctx: Some(ctx), data, .. } = a {
                    if let Ok(m) = Msg::decode(&data) {
                        if m.hdr.msg_type == T_PDELAY_REQ {
                            req = Some((m.hdr.seq, ctx));
                        }
                    }
                }
            }
            let Some((seq, ctx)) = req else { return };
            if node.call(0, Call::TxTimestamp(ctx, time_from_units(t))).is_err() {
                return;
            }
            for who in [21u8, 22] {
                if who == 22 {
                    // the first response still belongs to the slave phase (and may steer); the
                    // second one is the call that takes the port out of the slave state
                    before_leave = Some(clock.lock().unwrap().log.len());
                }
                let r = Src::new(clock_id(who).0, 1).pdelay_resp(seq, false, Ts { secs: (t >> 32) as u64 / 1_000_000_000, nanos: 5 }, own, 0);
                if node.call(0, Call::EventRx(r.encode(), time_from_units(t + (1000 << 32)))).is_err() {
                    return;
                }
            }
            if node.port_state(0) != PortState::Faulty {
                return;
            }
            rep.ev("slave_port_made_faulty");
            // timers of the slave phase still fire while the port is disabled, then it recovers
            for _ in 0..3 {
                let _ = node.call(0, Call::FilterUpdateTimer);
            }
            for _ in 0..3 {
                if !exchange(&mut node, &mut t, &mut rng) {
                    return;
                }
                if node.port_state(0) != PortState::Faulty {
                    break;
                }
            }
            if node.port_state(0) == PortState::Faulty || node.port_state(0) == PortState::Slave {
                return;
            }
        }
        allowed = 1;
    }
    let state = node.port_state(0);
    if state == PortState::Slave || state == PortState::Faulty {
        return;
    }
    let before = before_leave.unwrap_or_else(|| clock.lock().unwrap().log.len());
    let mut done = 0;
    for _ in 0..rng.gen_range(2..8) {
        if !exchange(&mut node, &mut t, &mut rng) {
            return;
        }
        if node.port_state(0) != state {
            return;
        }
        done += 1;
        if rng.gen_bool(0.5) {
            let _ = node.call(0, Call::FilterUpdateTimer);
        }
    }
    let _ = done;
    let log = clock.lock().unwrap().log.clone();
    let after: Vec<_> = log[before..].iter().filter(|c| !matches!(c.kind, ClockCallKind::SetProperties(_))).collect();
    rep.ev("port_p2p_nonslave");
    rep.ev(&format!("port_p2p_nonslave_{}", state_name(state)));
    if after.len() > allowed {
        rep.violation(
            &format!("C13|port|non-slave-p2p-port-commands-clock|{}", if start == 2 { "after-slave" } else { "never-slave" }),
            &format!("{} clock commands (allowed {allowed}) on a {} P2P port that is not slave: {:?}", after.len(), state_name(state), &after[..after.len().min(6)]),
            replay.clone(),
        );
    }
    for c in after {
        if let ClockCallKind::StepClock(_) = &c.kind {
            rep.violation("C13|port|demobilize-steps", "step_clock on a non-slave P2P port", replay.clone());
        }
    }
}

pub fn run(rep: &mut Report, tier: &str, seed: u64, shard: (u32, u32), replay: Option<&str>) {
    rep.rule = "measurement sequences (<= 64 measurements; offsets on a log lattice 0..+-1e9 s, equal/backward/forward event times, zero-variance sets, alternating kinds, update() calls) x servo configurations x clock behaviours (consistent / lagging / ahead, failing every n-th call), fed to KalmanFilter and BasicFilter through the public Filter trait; distinct = distinct cases; non-trivial = at least one clock command was issued".into();
    rep.require(&["set_frequency", "step_clock", "demobilize", "port_demobilize", "port_p2p_nonslave"]);
    if let Some(path) = replay {
        let v: serde_json::Value = serde_json::from_str(&std::fs::read_to_string(path).unwrap()).unwrap();
        if let Ok(c) = serde_json::from_value::<Case>(v["case"].clone()) {
            run_case(rep, &c);
        }
        println!("replay: {} finding(s)", rep.findings.len());
        for f in rep.findings.values() {
            println!("  {}", f.what);
        }
        return;
    }
    let mut rng = StdRng::seed_from_u64(seed ^ 0xc13 ^ ((shard.0 as u64) << 40));
    let n: u64 = if tier == "thorough" { 1_500_000 } else { 200_000 };
    let budget = Budget::new(n, if tier == "thorough" { 600.0 } else { 20.0 });
    let mut i = 0;
    while budget.left(i) {
        i += 1;
        let case = gen_case(&mut rng);
        let before = rep.events.get("set_frequency").copied().unwrap_or(0) + rep.events.get("step_clock").copied().unwrap_or(0);
        run_case(rep, &case);
        let after = rep.events.get("set_frequency").copied().unwrap_or(0) + rep.events.get("step_clock").copied().unwrap_or(0);
        rep.evaluations += 1;
        if after > before {
            rep.distinct_case(&format!("{case:?}"));
        }
        if i <= 2 {
            let mut c = case.clone();
            c.steps.truncate(4);
            rep.sample(serde_json::to_value(&c).unwrap());
        }
        if i % 50 == 0 {
            port_demobilize(rep, rng.gen());
            port_p2p_nonslave(rep, rng.gen());
        }
    }
}
