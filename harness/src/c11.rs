//! C11 - Announces advertise the instance's current view of the hierarchy.
//! Oracle: shadow view kept by the monitor from what it injected (never from statime's data
//! sets), compared field by field with the reference decoding of every emitted Announce.

use rand::rngs::StdRng;
use rand::{Rng, SeedableRng};
use serde_json::json;
use statime::config::{ClockAccuracy, ClockQuality, LeapIndicator, TimePropertiesDS, TimeSource};
use statime::observability::port::PortState;

use crate::c04::accuracy_is_reserved;
use crate::drive::*;
use crate::node::*;
use crate::refcodec::*;
use crate::report::*;

#[derive(Clone, Debug, PartialEq)]
struct View {
    gm_id: [u8; 8],
    p1: u8,
    class: u8,
    acc: u8,
    var: u16,
    p2: u8,
    steps: u16,
    utc: Option<i16>,
    leap61: bool,
    leap59: bool,
    ptp_timescale: bool,
    time_traceable: bool,
    freq_traceable: bool,
    time_source: u8,
    /// the view came from an Announce with both leap flags set (no single leap indicator exists)
    both_leaps: bool,
}

fn view_of_announce(m: &Msg) -> Option<View> {
    let Body::Announce(a) = &m.body else { return None };
    let h = &m.hdr;
    let l61 = h.flag(F_LEAP61);
    let l59 = h.flag(F_LEAP59);
    Some(View {
        gm_id: a.gm_identity,
        p1: a.gm_priority1,
        class: a.gm_class,
        acc: a.gm_accuracy,
        var: a.gm_variance,
        p2: a.gm_priority2,
        steps: a.steps_removed,
        utc: if h.flag(F_UTC_VALID) { Some(a.utc_offset) } else { None },
        leap61: l61,
        leap59: l59,
        ptp_timescale: h.flag(F_PTP_TIMESCALE),
        time_traceable: h.flag(F_TIME_TRACEABLE),
        freq_traceable: h.flag(F_FREQ_TRACEABLE),
        time_source: a.time_source,
        both_leaps: l61 && l59,
    })
}

#[derive(Clone, Debug, serde::Serialize, serde::Deserialize)]
pub struct Case {
    pub n_ports: usize,
    pub seed: u64,
    pub path_trace: bool,
    pub steps: usize,
    /// the last port is configured masterOnly; a master better than everything else may show up there
    #[serde(default)]
    pub master_only_last: bool,
}

fn rand_parent_body(rng: &mut StdRng, gm: [u8; 8], p1: u8) -> (AnnounceBody, [u8; 2]) {
    let body = AnnounceBody {
        origin: Ts::default(),
        utc_offset: [0i16, 37, -1, i16::MIN, i16::MAX, rng.gen()][rng.gen_range(0..6)],
        reserved: 0,
        gm_priority1: p1,
        gm_class: [6u8, 7, 13, 52, 127, 128, 187, 248, 255][rng.gen_range(0..9)],
        gm_accuracy: if rng.gen_bool(0.8) { rng.gen_range(0x17..=0x31) } else { rng.gen() },
        gm_variance: rng.gen(),
        gm_priority2: rng.gen(),
        gm_identity: gm,
        steps_removed: [0u16, 1, 2, 100, 253, 254][rng.gen_range(0..6)],
        time_source: rng.gen(),
    };
    // every combination of the six time-properties flag bits
    let f1: u8 = rng.gen_range(0..64);
    (body, [0, f1])
}

pub fn run_case(rep: &mut Report, case: &Case, verbose: bool) {
    let replay = serde_json::to_value(case).unwrap();
    let mut rng = StdRng::seed_from_u64(case.seed);
    let own_tp = TimePropertiesDS {
        current_utc_offset: if rng.gen_bool(0.7) { Some([37i16, 0, -3][rng.gen_range(0..3)]) } else { None },
        leap_indicator: [LeapIndicator::NoLeap, LeapIndicator::Leap59, LeapIndicator::Leap61][rng.gen_range(0..3)],
        time_traceable: rng.gen(),
        frequency_traceable: rng.gen(),
        ptp_timescale: rng.gen(),
        time_source: [TimeSource::Gnss, TimeSource::AtomicClock, TimeSource::InternalOscillator, TimeSource::Ntp][rng.gen_range(0..4)],
    };
    let mut b = Build::new(0x50);
    b.n_ports = case.n_ports;
    b.tp = own_tp;
    b.path_trace = case.path_trace;
    b.seed = case.seed;
    if case.master_only_last {
        b.master_only = (0..case.n_ports).map(|p| p + 1 == case.n_ports).collect();
    }
    // some ports speak PTP 2.0: what they advertise is the same view
    if case.seed % 4 == 1 {
        b.minor_zero = (0..case.n_ports).map(|p| (case.seed >> (8 + p)) & 1 == 1 || p == 1).collect();
        rep.ev("case_with_ptp_2_0_ports");
    }
    let Ok(built) = b.build() else { return };
    let mut node = built.node;
    // what the instance advertises does not depend on whether the host's clock accepts the time
    // properties: in a third of the cases every clock control call fails
    if case.seed % 3 == 0 {
        node.clock.lock().unwrap().fail_every = Some(1);
        rep.ev("case_with_failing_clock");
    }
    let own_id = clock_id(0x50).0;
    let mut own_quality = (248u8, 0xfeu8, 0x8000u16 - 23 * 256);
    let own_view = |q: (u8, u8, u16)| View {
        gm_id: own_id,
        p1: 128,
        class: q.0,
        acc: q.1,
        var: q.2,
        p2: 128,
        steps: 0,
        utc: own_tp.current_utc_offset,
        leap61: own_tp.leap_indicator == LeapIndicator::Leap61,
        leap59: own_tp.leap_indicator == LeapIndicator::Leap59,
        ptp_timescale: own_tp.ptp_timescale,
        time_traceable: own_tp.time_traceable,
        freq_traceable: own_tp.frequency_traceable,
        time_source: own_tp.time_source.to_primitive(),
        both_leaps: false,
    };
    macro_rules! call {
        ($p:expr, $c:expr) => {
            match node.call($p, $c) {
                Ok(a) => a,
                Err(_) => {
                    rep.observe("case ended by a panic (see C03)");
                    return;
                }
            }
        };
    }
    macro_rules! bmca {
        () => {
            if node.bmca().is_err() {
                rep.observe("case ended by a panic (see C03)");
                return;
            }
        };
    }
    // all ports become master on a silent network
    for p in 0..case.n_ports {
        call!(p, Call::AnnounceReceiptTimer);
    }
    let mut expected: View = own_view(own_quality);
    let mut phase_label = "grandmaster";
    let check_all = |node: &mut Node, rep: &mut Report, expected: &View, label: &str, what: &str| -> bool {
        for p in 0..node.n_ports() {
            if node.port_state(p) != PortState::Master {
                continue;
            }
            let acts = match node.call(p, Call::AnnounceTimer) {
                Ok(a) => a,
                Err(_) => return false,
            };
            for a in acts {
                let Act::SendGeneral { data, .. } = a else { continue };
                let Ok(m) = Msg::decode(&data) else { continue };
                let Some(got) = view_of_announce(&m) else { continue };
                rep.ev("announce_checked");
                rep.ev(&format!("announce_checked_{label}"));
                let mut diffs = vec![];
                macro_rules! cmp {
                    ($f:ident, $name:expr) => {
                        if got.$f != expected.$f {
                            diffs.push(format!("{} {:?} (expected {:?})", $name, got.$f, expected.$f));
                        }
                    };
                }
                cmp!(gm_id, "grandmasterIdentity");
                cmp!(p1, "grandmasterPriority1");
                cmp!(class, "clockClass");
                if !(accuracy_is_reserved(expected.acc) && accuracy_is_reserved(got.acc)) {
                    cmp!(acc, "clockAccuracy");
                }
                cmp!(var, "offsetScaledLogVariance");
                cmp!(p2, "grandmasterPriority2");
                cmp!(steps, "stepsRemoved");
                if got.utc.is_some() != expected.utc.is_some() {
                    diffs.push(format!("currentUtcOffsetValid {:?} (expected {:?})", got.utc.is_some(), expected.utc.is_some()));
                } else if expected.utc.is_some() {
                    cmp!(utc, "currentUtcOffset");
                }
                if !expected.both_leaps {
                    cmp!(leap61, "leap61");
                    cmp!(leap59, "leap59");
                }
                cmp!(ptp_timescale, "ptpTimescale");
                cmp!(time_traceable, "timeTraceable");
                cmp!(freq_traceable, "frequencyTraceable");
                cmp!(time_source, "timeSource");
                for d in diffs {
                    let field = d.split(' ').next().unwrap_or("").to_string();
                    rep.violation(&format!("C11|{label}|{field}"), &format!("{what}: Announce of port {p} carries {d}"), serde_json::to_value(case).unwrap());
                }
            }
        }
        true
    };
    if !check_all(&mut node, rep, &expected, phase_label, "silent network, instance is grandmaster") {
        return;
    }
    let mut p_remote = Remote::new(0x10, 1);
    let mut q_remote = Remote::new(0x08, 2);
    let mut z_remote = Remote::new(0x04, 1);
    let deliver = |node: &mut Node, r: &mut Remote, body: AnnounceBody, flags: [u8; 2]| -> Option<Msg> {
        r.body = body;
        r.flags = flags;
        let m = r.next_announce();
        node.call(0, Call::GeneralRx(m.encode())).ok()?;
        Some(m)
    };
    let mut parent: Option<u8> = None; // 0 = P, 1 = Q
    let mut copy_done = false;
    for step in 0..case.steps {
        let action = match rng.gen_range(0..if case.master_only_last { 14 } else { 12 }) {
            10 | 11 => 20, // stray copy of a parent Announce on another port
            12 | 13 => 10,
            a => a,
        };
        match action {
            0..=4 => {
                // the current parent (or P, if none) announces with new contents
                let use_q = parent == Some(1);
                let (body, flags) = if use_q { rand_parent_body(&mut rng, clock_id(0x08).0, 50) } else { rand_parent_body(&mut rng, clock_id(0x10).0, 100) };
                let r = if use_q { &mut q_remote } else { &mut p_remote };
                let Some(m) = deliver(&mut node, r, body, flags) else { return };
                if parent.is_none() {
                    // needs a second announce and a BMCA to be selected
                    let (b2, f2) = rand_parent_body(&mut rng, clock_id(0x10).0, 100);
                    let Some(m2) = deliver(&mut node, &mut p_remote, b2, f2) else { return };
                    bmca!();
                    if node.port_state(0) == PortState::Slave {
                        parent = Some(0);
                        let mut v = view_of_announce(&m2).unwrap();
                        v.steps += 1;
                        expected = v;
                        phase_label = "slave";
                        rep.ev("parent_selected");
                    } else {
                        rep.ev("scenario_not_established");
                        let _ = m;
                        return;
                    }
                } else {
                    let mut v = view_of_announce(&m).unwrap();
                    v.steps += 1;
                    expected = v;
                }
                if !check_all(&mut node, rep, &expected, phase_label, &format!("step {step}: after an Announce from the current parent")) {
                    return;
                }
            }
            5 => {
                // a better master Q takes over (P keeps announcing)
                if parent == Some(0) {
                    let (b1, f1) = rand_parent_body(&mut rng, clock_id(0x08).0, 50);
                    if deliver(&mut node, &mut q_remote, b1, f1).is_none() {
                        return;
                    }
                    let (b2, f2) = rand_parent_body(&mut rng, clock_id(0x08).0, 50);
                    let Some(m2) = deliver(&mut node, &mut q_remote, b2, f2) else { return };
                    bmca!();
                    let pd = node.inst().parent_ds();
                    if node.port_state(0) == PortState::Slave && pd.parent_port_identity.clock_identity.0 == clock_id(0x08).0 {
                        parent = Some(1);
                        let mut v = view_of_announce(&m2).unwrap();
                        v.steps += 1;
                        expected = v;
                        rep.ev("parent_changed");
                        if !check_all(&mut node, rep, &expected, "slave", &format!("step {step}: after BMCA selected a better parent")) {
                            return;
                        }
                    } else {
                        rep.ev("scenario_not_established");
                        return;
                    }
                }
            }
            6 => {
                // all masters fall silent: the instance takes over as grandmaster
                if parent.is_some() {
                    for _ in 0..7 {
                        bmca!();
                    }
                    if node.port_state(0) == PortState::Master && (0..case.n_ports).all(|p| node.port_state(p) != PortState::Slave) {
                        parent = None;
                        expected = own_view(own_quality);
                        phase_label = "grandmaster-after-takeover";
                        rep.ev("takeover");
                        if !check_all(&mut node, rep, &expected, phase_label, &format!("step {step}: parent lost, instance took over as grandmaster")) {
                            return;
                        }
                    } else {
                        rep.ev("scenario_not_established");
                        return;
                    }
                }
            }
            7 | 8 => {
                // local quality change, visible after the next BMCA while grandmaster
                let q = ([248u8, 187, 135, 255][rng.gen_range(0..4)], [0xfeu8, 0x21, 0x23, 0x31][rng.gen_range(0..4)], rng.gen::<u16>());
                let acc = match q.1 {
                    0x21 => ClockAccuracy::NS100,
                    0x23 => ClockAccuracy::US1,
                    0x31 => ClockAccuracy::SGT10,
                    _ => ClockAccuracy::Unknown,
                };
                if node.set_clock_quality(ClockQuality { clock_class: q.0, clock_accuracy: acc, offset_scaled_log_variance: q.2 }).is_err() {
                    return;
                }
                own_quality = q;
                bmca!();
                rep.ev("quality_changed");
                if parent.is_none() {
                    expected = own_view(own_quality);
                } else if node.port_state(0) != PortState::Slave {
                    // the quality change made us better than the parent: handled like a takeover
                    rep.ev("scenario_not_established");
                    return;
                }
                if !check_all(&mut node, rep, &expected, phase_label, &format!("step {step}: after set_clock_quality + BMCA")) {
                    return;
                }
            }
            20 => {
                // a delayed / looped-back copy of an Announce of the parent (its identity, other
                // contents) reaches a port that is not the slave port: only Announces received on the
                // slave port refresh the view
                // (once per case: a second copy within the foreign master window would make the parent a
                // qualified master on that port as well, which legitimately changes the topology)
                if parent.is_some() && !copy_done {
                    copy_done = true;
                    let use_q = parent == Some(1);
                    let (body, flags) = if use_q { rand_parent_body(&mut rng, clock_id(0x08).0, 50) } else { rand_parent_body(&mut rng, clock_id(0x10).0, 100) };
                    let r = if use_q { &q_remote } else { &p_remote };
                    let mut m = r.src.announce(r.ann_seq.wrapping_sub(rng.gen_range(1..4)), body);
                    m.hdr.flags = flags;
                    let other_port = rng.gen_range(1..case.n_ports);
                    call!(other_port, Call::GeneralRx(m.encode()));
                    rep.ev("parent_copy_on_other_port");
                    if !check_all(&mut node, rep, &expected, phase_label, &format!("step {step}: a copy of a parent Announce with other contents arrived on port {other_port}")) {
                        return;
                    }
                }
            }
            10 | 11 => {
                // a master better than the parent is heard on the masterOnly port: Announces received
                // there take no part in the election, so the view (and the next parent update) is
                // unaffected
                if parent.is_some() {
                    let mo = case.n_ports - 1;
                    // the parent is heard twice first, so that it certainly stays qualified over the
                    // BMCA run below
                    for _ in 0..2 {
                        let use_q = parent == Some(1);
                        let (body, flags) = if use_q { rand_parent_body(&mut rng, clock_id(0x08).0, 50) } else { rand_parent_body(&mut rng, clock_id(0x10).0, 100) };
                        let r = if use_q { &mut q_remote } else { &mut p_remote };
                        if deliver(&mut node, r, body, flags).is_none() {
                            return;
                        }
                    }
                    for _ in 0..2 {
                        let (zb, zf) = rand_parent_body(&mut rng, clock_id(0x04).0, 10);
                        z_remote.body = zb;
                        z_remote.flags = zf;
                        let m = z_remote.next_announce();
                        call!(mo, Call::GeneralRx(m.encode()));
                    }
                    bmca!();
                    rep.ev("better_master_on_master_only_port");
                    let use_q = parent == Some(1);
                    let (body, flags) = if use_q { rand_parent_body(&mut rng, clock_id(0x08).0, 50) } else { rand_parent_body(&mut rng, clock_id(0x10).0, 100) };
                    let r = if use_q { &mut q_remote } else { &mut p_remote };
                    let Some(m) = deliver(&mut node, r, body, flags) else { return };
                    let mut v = view_of_announce(&m).unwrap();
                    v.steps += 1;
                    expected = v;
                    if !check_all(&mut node, rep, &expected, phase_label, &format!("step {step}: a better master announces on the masterOnly port, then the parent announces new contents")) {
                        return;
                    }
                }
            }
            _ => {
                bmca!();
                if parent.is_some() && node.port_state(0) != PortState::Slave {
                    rep.ev("scenario_not_established");
                    return;
                }
                if !check_all(&mut node, rep, &expected, phase_label, &format!("step {step}: after a BMCA without new information")) {
                    return;
                }
            }
        }
        if verbose {
            eprintln!("step {step}: action {action} parent {parent:?} states {:?}", (0..case.n_ports).map(|p| state_name(node.port_state(p))).collect::<Vec<_>>());
        }
    }
    let _ = replay;
}

/// A slave-only instance that lost its parent and is then made master-capable at run time: its
/// ports become master through the announce receipt timeout and their very first Announces (before
/// any BMCA run sees them in the master state) must advertise the instance itself as grandmaster.
fn slave_only_takeover(rep: &mut Report, seed: u64) {
    let replay = json!({"slave_only_takeover_seed": seed});
    let mut rng = StdRng::seed_from_u64(seed);
    let own_tp = TimePropertiesDS {
        current_utc_offset: if rng.gen_bool(0.7) { Some([37i16, 0, -3][rng.gen_range(0..3)]) } else { None },
        leap_indicator: [LeapIndicator::NoLeap, LeapIndicator::Leap59, LeapIndicator::Leap61][rng.gen_range(0..3)],
        time_traceable: rng.gen(),
        frequency_traceable: rng.gen(),
        ptp_timescale: rng.gen(),
        time_source: [TimeSource::Gnss, TimeSource::AtomicClock, TimeSource::InternalOscillator, TimeSource::Ntp][rng.gen_range(0..4)],
    };
    let n_ports = rng.gen_range(1..=3usize);
    let mut b = Build::new(0x50);
    b.n_ports = n_ports;
    b.tp = own_tp;
    b.slave_only = true;
    b.clock_class = 255;
    b.seed = seed;
    let Ok(built) = b.build() else { return };
    let mut node = built.node;
    let mut parent = Remote::new(0x10, 1);
    let (body, flags) = rand_parent_body(&mut rng, clock_id(0x10).0, 100);
    parent.body = body;
    parent.flags = flags;
    if make_slave(&mut node, 0, &mut parent).is_err() || node.port_state(0) != PortState::Slave {
        rep.ev("scenario_not_established");
        return;
    }
    // how the parent is lost: it falls silent and ages out of the foreign master list over
    // several BMCA runs, or the announce receipt timer fires first
    let how = rng.gen_range(0..3);
    if how != 1 {
        for _ in 0..rng.gen_range(5..10) {
            if node.bmca().is_err() {
                return;
            }
        }
    }
    if how != 0 {
        if node.call(0, Call::AnnounceReceiptTimer).is_err() || node.bmca().is_err() {
            return;
        }
    }
    if node.port_state(0) == PortState::Slave {
        rep.ev("scenario_not_established");
        return;
    }
    if node.set_slave_only(false).is_err() {
        return;
    }
    if rng.gen_bool(0.5) && node.bmca().is_err() {
        return;
    }
    let expected = View {
        gm_id: clock_id(0x50).0,
        p1: 128,
        class: 255,
        acc: 0xfe,
        var: 0x8000 - 23 * 256,
        p2: 128,
        steps: 0,
        utc: own_tp.current_utc_offset,
        leap61: own_tp.leap_indicator == LeapIndicator::Leap61,
        leap59: own_tp.leap_indicator == LeapIndicator::Leap59,
        ptp_timescale: own_tp.ptp_timescale,
        time_traceable: own_tp.time_traceable,
        freq_traceable: own_tp.frequency_traceable,
        time_source: own_tp.time_source.to_primitive(),
        both_leaps: false,
    };
    for p in 0..n_ports {
        if node.call(p, Call::AnnounceReceiptTimer).is_err() {
            return;
        }
        if node.port_state(p) != PortState::Master {
            continue;
        }
        let Ok(acts) = node.call(p, Call::AnnounceTimer) else { return };
        for a in acts {
            let Act::SendGeneral { data, .. } = a else { continue };
            let Ok(m) = Msg::decode(&data) else { continue };
            let Some(got) = view_of_announce(&m) else { continue };
            rep.ev("announce_checked");
            rep.ev("announce_checked_after_slave_only_instance_became_master_capable");
            if got != expected {
                rep.violation(
                    "C11|grandmaster-after-slave-only|stale-view",
                    &format!("formerly slave-only instance that lost its parent, first Announce of port {p} after set_slave_only(false): {got:?}, expected the own data {expected:?}"),
                    replay.clone(),
                );
            }
        }
    }
}

pub fn run(rep: &mut Report, tier: &str, seed: u64, shard: (u32, u32), replay: Option<&str>) {
    rep.rule = "boundary clocks with 2-3 real ports: a scripted parent on port 0 whose Announce contents are redrawn at every step (all 2^6 time-properties flag combinations, utc offsets incl. i16 extremes, every timeSource octet, quality lattice, stepsRemoved 0..254), a better second master taking over, loss of all masters (grandmaster take-over) and local quality changes; after every step each master port's next Announce is decoded and compared with the shadow view; distinct = distinct cases; evaluations = cases".into();
    rep.require(&["announce_checked", "announce_checked_grandmaster", "announce_checked_slave", "announce_checked_grandmaster-after-takeover", "parent_selected", "parent_changed", "takeover", "quality_changed", "announce_checked_after_slave_only_instance_became_master_capable", "case_with_ptp_2_0_ports"]);
    if let Some(path) = replay {
        let v: serde_json::Value = serde_json::from_str(&std::fs::read_to_string(path).unwrap()).unwrap();
        if let Some(sd) = v["case"]["slave_only_takeover_seed"].as_u64() {
            slave_only_takeover(rep, sd);
            println!("replay: {} finding(s)", rep.findings.len());
            return;
        }
        match serde_json::from_value::<Case>(v["case"].clone()) {
            Ok(c) => run_case(rep, &c, true),
            Err(e) => println!("cannot parse replay: {e}"),
        }
        println!("replay: {} finding(s)", rep.findings.len());
        for f in rep.findings.values() {
            println!("  {}", f.what);
        }
        return;
    }
    let mut rng = StdRng::seed_from_u64(seed ^ 0xc11 ^ ((shard.0 as u64) << 40));
    let n: u64 = if tier == "thorough" { 300_000 } else { 20_000 };
    let budget = Budget::new(n, if tier == "thorough" { 600.0 } else { 15.0 });
    let mut i = 0;
    while budget.left(i) {
        i += 1;
        let case = Case { n_ports: rng.gen_range(2..=3), seed: rng.gen(), path_trace: rng.gen_bool(0.3), steps: rng.gen_range(3..14), master_only_last: rng.gen_bool(0.3) };
        if i <= 2 {
            rep.sample(serde_json::to_value(&case).unwrap());
        }
        run_case(rep, &case, false);
        rep.distinct_case(&format!("{case:?}"));
        rep.evaluations += 1;
        if i % 8 == 0 {
            slave_only_takeover(rep, rng.gen());
        }
    }
    let ne = rep.events.get("scenario_not_established").copied().unwrap_or(0);
    if ne * 5 > rep.evaluations {
        rep.inconclusive(&format!("{ne} of {} scenarios were not established", rep.evaluations));
    }
    let _ = json!(null);
}
