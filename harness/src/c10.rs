//! C10 - master-side messages carry exact timestamps and consistent identifiers.
//! Oracle: refcodec decode of every emitted frame + exact integer arithmetic on the supplied times.

use rand::rngs::StdRng;
use rand::{Rng, SeedableRng};
use serde_json::json;
use statime::fuzz::FuzzMessage;

use crate::drive::*;
use crate::node::*;
use crate::refcodec::*;
use crate::report::*;

pub struct Emit {
    pub msg: Msg,
    pub event: bool,
    pub link_local: bool,
}

/// Shared well-formedness monitor for every frame a port emits. Returns decoded frames.
/// A frame as the network hands it over: sometimes longer than messageLength (Ethernet minimum
/// frame padding, a transport's trailer). The octets after the message are not part of it.
fn padded(rng: &mut StdRng, rep: &mut Report, mut frame: Vec<u8>) -> Vec<u8> {
    if rng.gen_bool(0.3) {
        let n = [1usize, 2, 3, 6, 18, 46][rng.gen_range(0..6)];
        let zero = rng.gen_bool(0.7);
        frame.extend((0..n).map(|_| if zero { 0u8 } else { rng.gen() }));
        rep.ev("request_frame_with_octets_after_the_message");
    }
    frame
}

pub fn check_emitted(
    rep: &mut Report,
    prop: &str,
    acts: &[Act],
    own: Pid,
    domain: u8,
    sdo: u16,
    replay: &serde_json::Value,
) -> Vec<Emit> {
    let mut out = vec![];
    let mut n_event = 0;
    for a in acts {
        let (data, event, ll) = match a {
            Act::SendEvent { data, link_local, .. } => {
                n_event += 1;
                (data, true, *link_local)
            }
            Act::SendGeneral { data, link_local } => (data, false, *link_local),
            _ => continue,
        };
        rep.ev("emitted_frame");
        if data.len() > statime::port::MAX_DATA_LEN {
            rep.violation(&format!("{prop}|emit|too-long"), &format!("emitted frame of {} bytes exceeds MAX_DATA_LEN", data.len()), replay.clone());
        }
        let own_ok = guarded(|| FuzzMessage::deserialize(data).is_ok());
        if !matches!(own_ok, Ok(true)) {
            rep.violation(&format!("{prop}|emit|own-parser-rejects"), &format!("emitted frame rejected by the library's own parser: {}", hex(data)), replay.clone());
        }
        match Msg::decode(data) {
            Ok(m) => {
                if m.hdr.length != Some(data.len() as u16) {
                    rep.violation(&format!("{prop}|emit|length"), &format!("messageLength {:?} but {} bytes handed to the host", m.hdr.length, data.len()), replay.clone());
                }
                if m.hdr.src != own {
                    rep.violation(&format!("{prop}|emit|identity|{}", type_name(m.hdr.msg_type)), &format!("{} bears sourcePortIdentity {:?}, port is {:?}", type_name(m.hdr.msg_type), m.hdr.src, own), replay.clone());
                }
                if m.hdr.domain != domain || m.hdr.sdo_id() != sdo {
                    rep.violation(&format!("{prop}|emit|domain|{}", type_name(m.hdr.msg_type)), &format!("{} bears domain {} sdoId {:#x}, instance has {} / {:#x}", type_name(m.hdr.msg_type), m.hdr.domain, m.hdr.sdo_id(), domain, sdo), replay.clone());
                }
                if m.hdr.version != 2 {
                    rep.violation(&format!("{prop}|emit|version"), &format!("versionPTP {}", m.hdr.version), replay.clone());
                }
                let is_event_type = matches!(m.hdr.msg_type, T_SYNC | T_DELAY_REQ | T_PDELAY_REQ | T_PDELAY_RESP);
                if is_event_type != event {
                    rep.violation(&format!("{prop}|emit|channel|{}", type_name(m.hdr.msg_type)), &format!("{} sent on the {} channel", type_name(m.hdr.msg_type), if event { "event" } else { "general" }), replay.clone());
                }
                out.push(Emit { msg: m, event, link_local: ll });
            }
            Err(e) => {
                rep.violation(&format!("{prop}|emit|undecodable"), &format!("reference codec cannot decode emitted frame ({e}): {}", hex(data)), replay.clone());
            }
        }
    }
    if n_event > 1 {
        rep.violation(&format!("{prop}|emit|two-event-sends"), "an action list contains more than one SendEvent", replay.clone());
    }
    out
}

fn lattice_time(rng: &mut StdRng) -> u128 {
    let max_s: u128 = 1 << 48;
    match rng.gen_range(0..10) {
        0 => 0,
        1 => 1,
        2 => (max_s * 1_000_000_000 << 32) - 1,
        3 => ((rng.gen_range(0..max_s) * 1_000_000_000) << 32) + [0u128, 1, (1 << 32) - 1, (1 << 16) - 1, 1 << 16][rng.gen_range(0..5)],
        4 => (((rng.gen_range(1..max_s) * 1_000_000_000) - 1) << 32) | rng.gen_range(0..(1u128 << 32)),
        5 => (((1u128 << 32) * 1_000_000_000) << 32) - rng.gen_range(0..3u128),
        _ => rng.gen_range(0..(max_s * 1_000_000_000 << 32)),
    }
}

fn lattice_corr(rng: &mut StdRng) -> i64 {
    match rng.gen_range(0..12) {
        0 => 0,
        1 => 1,
        2 => -1,
        3 => i64::MAX,
        4 => i64::MIN,
        5 => i64::MAX - 65535,
        6 => i64::MAX - 65536,
        7 => 1 << 47,
        8 => -(1 << 47),
        9 => rng.gen(),
        _ => rng.gen_range(-(1i64 << 36)..(1i64 << 36)),
    }
}

struct Seqs {
    last: std::collections::HashMap<u8, u16>,
}

impl Seqs {
    fn check(&mut self, rep: &mut Report, t: u8, seq: u16, replay: &serde_json::Value) {
        rep.ev(&format!("seq_{}", type_name(t)));
        if let Some(prev) = self.last.get(&t) {
            if seq != prev.wrapping_add(1) {
                rep.violation(&format!("C10|sequence|{}", type_name(t)), &format!("{} sequenceId {} follows {}", type_name(t), seq, prev), replay.clone());
            }
            if seq == 0 && *prev == 0xffff {
                rep.ev(&format!("seq_wrap_{}", type_name(t)));
            }
        }
        self.last.insert(t, seq);
    }
}

#[derive(Clone, Debug, serde::Serialize, serde::Deserialize)]
pub struct Params {
    pub domain: u8,
    pub sdo: u16,
    pub p2p: bool,
    pub seed: u64,
    pub ops: u32,
    pub wrap: bool,
}

pub fn run_case(rep: &mut Report, p: &Params) {
    let replay = serde_json::to_value(p).unwrap();
    let mut rng = StdRng::seed_from_u64(p.seed);
    let mut b = Build::new(3);
    b.domain = p.domain;
    b.sdo = p.sdo;
    b.p2p = p.p2p;
    b.seed = p.seed;
    b.log_delay = [-2i8, 0, 3][rng.gen_range(0..3)];
    // the configured delay asymmetry belongs to the slave-side computations only: nothing a master
    // port emits may depend on it
    b.asymmetry_units = [0i128, 0, 250 << 32, -(3000i128 << 32), 1i128 << 50, -(1i128 << 44)][rng.gen_range(0..6)];
    let built = match b.build() {
        Ok(x) => x,
        Err(e) => {
            rep.violation(&format!("C10|panic|{}|{}", e.site(), e.class()), &format!("setup panicked: {} at {}", e.message, e.location), replay);
            return;
        }
    };
    let mut node = built.node;
    let (clk, pn) = node.port_identity_bytes(0);
    let own = Pid { clock: clk, port: pn };
    let mut seqs = Seqs { last: Default::default() };
    macro_rules! call {
        ($c:expr, $what:expr) => {
            match node.call(0, $c) {
                Ok(a) => a,
                Err(e) => {
                    rep.violation(
                        &format!("C10|panic|{}|{}", e.site(), e.class()),
                        &format!("{} panicked: {} at {}", $what, e.message, e.location),
                        replay.clone(),
                    );
                    return;
                }
            }
        };
    }
    let acts = call!(Call::AnnounceReceiptTimer, "announce receipt timer");
    check_emitted(rep, "C10", &acts, own, p.domain, p.sdo, &replay);
    if !is_state(&node, 0, statime::observability::port::PortState::Master) {
        rep.inconclusive("port did not become master");
        return;
    }
    let requester = Src { pid: Pid { clock: [9, 9, 9, 9, 9, 9, 9, 9], port: 7 }, domain: p.domain, sdo: p.sdo, minor_version: 1 };
    let n_ops = p.ops;
    // P2P ports answer Pdelay_Req in every state: after the regular operations the port is driven
    // into the faulty state (two responders answer one of its own requests) and asked again
    let extra = if p.p2p && !p.wrap { 6 } else { 0 };
    let mut faulty_phase = false;
    let mut pending_ts = Vec::new();
    for opi in 0..n_ops + extra {
        if opi == n_ops {
            let acts = call!(Call::DelayRequestTimer, "delay request timer");
            let mut req_seq = None;
            for a in &acts {
                if let Act::SendEvent { data, .. } = a {
                    if let Ok(m) = Msg::decode(data) {
                        if m.hdr.msg_type == T_PDELAY_REQ {
                            req_seq = Some(m.hdr.seq);
                        }
                    }
                }
            }
            let Some(rs) = req_seq else { break };
            let t = lattice_time(&mut rng);
            for who in [0x71u8, 0x72] {
                let responder = Src { pid: Pid { clock: [who; 8], port: 1 }, domain: p.domain, sdo: p.sdo, minor_version: 1 };
                let m = responder.pdelay_resp(rs, false, Ts { secs: 5, nanos: 0 }, own, 0);
                let _ = call!(Call::EventRx(m.encode(), time_from_units(t)), "Pdelay_Resp receive");
            }
            if !is_state(&node, 0, statime::observability::port::PortState::Faulty) {
                rep.ev("faulty_state_not_reached");
                break;
            }
            rep.ev("port_made_faulty");
            faulty_phase = true;
        }
        let kind = if faulty_phase { 3 } else if p.wrap { opi % 3 } else { rng.gen_range(0..5) };
        match kind {
            0 => {
                // Sync + Follow_Up
                let acts = call!(Call::SyncTimer, "sync timer");
                let em = check_emitted(rep, "C10", &acts, own, p.domain, p.sdo, &replay);
                let mut ctx = None;
                for a in acts {
                    if let Act::SendEvent { ctx: c, .. } = a {
                        ctx = c;
                    }
                }
                let sync = em.iter().find(|e| e.msg.hdr.msg_type == T_SYNC);
                let (Some(sync), Some(ctx)) = (sync, ctx) else {
                    rep.violation("C10|sync|not-emitted", "master port emitted no Sync on its sync timer", replay.clone());
                    continue;
                };
                seqs.check(rep, T_SYNC, sync.msg.hdr.seq, &replay);
                if !sync.msg.hdr.flag(F_TWO_STEP) {
                    rep.violation("C10|sync|two-step-flag", "Sync without twoStepFlag although a Follow_Up follows", replay.clone());
                }
                // the host may report transmit timestamps late: a Sync whose timestamp is still
                // outstanding when the next Sync goes out must still get its own Follow_Up
                if !p.wrap && rng.gen_bool(0.2) && pending_ts.len() < 3 {
                    pending_ts.push((ctx, sync.msg.hdr.seq));
                    rep.ev("sync_timestamp_deferred_past_next_sync");
                    continue;
                }
                let mut to_stamp: Vec<(_, u16, bool)> = pending_ts.drain(..).map(|(c, s)| (c, s, true)).collect();
                let at = if to_stamp.is_empty() { 0 } else { rng.gen_range(0..=to_stamp.len()) };
                to_stamp.insert(at, (ctx, sync.msg.hdr.seq, false));
                for (ctx, sync_seq, late) in to_stamp {
                let t = lattice_time(&mut rng);
                // a run-time setting change between the two halves of the exchange: the port stays
                // master until the next BMCA run, so the Sync it sent still gets its Follow_Up
                let toggled = !p.wrap && rng.gen_bool(0.15);
                if toggled {
                    let _ = node.set_slave_only(true);
                    rep.ev("slave_only_switched_on_between_sync_and_timestamp");
                }
                let acts = call!(Call::TxTimestamp(ctx, time_from_units(t)), "sync tx timestamp");
                if toggled {
                    let _ = node.set_slave_only(false);
                }
                let em = check_emitted(rep, "C10", &acts, own, p.domain, p.sdo, &replay);
                let fus: Vec<&Emit> = em.iter().filter(|e| e.msg.hdr.msg_type == T_FOLLOW_UP).collect();
                rep.ev("sync_followup_pair");
                if late {
                    rep.ev("late_sync_timestamp_followup_checked");
                }
                if fus.len() != 1 || em.len() != 1 {
                    rep.violation(if late { "C10|followup|count|timestamp-after-next-sync" } else { "C10|followup|count" }, &format!("{} Follow_Up(s) / {} frames after the Sync transmit timestamp (Sync seq {sync_seq}, reported {})", fus.len(), em.len(), if late { "after a later Sync was sent" } else { "at once" }), replay.clone());
                    continue;
                }
                let fu = &fus[0].msg;
                if fu.hdr.seq != sync_seq {
                    rep.violation("C10|followup|sequence", &format!("Follow_Up seq {} for Sync seq {}", fu.hdr.seq, sync_seq), replay.clone());
                }
                if let Body::FollowUp { precise_origin } = &fu.body {
                    let back = precise_origin.to_units() as i128 + ((fu.hdr.correction as i128) << 16);
                    let want = (t & !0xffffu128) as i128;
                    if back != want || precise_origin.nanos >= 1_000_000_000 {
                        rep.violation("C10|followup|timestamp", &format!("t={t}: originTimestamp {precise_origin:?} + correction {} = {back}, expected {want}", fu.hdr.correction), replay.clone());
                    }
                }
                }
            }
            1 => {
                // Delay_Req -> Delay_Resp
                let seq: u16 = rng.gen();
                let corr = lattice_corr(&mut rng);
                let mut req = requester.delay_req(seq, corr);
                req.hdr.flags = [rng.gen::<u8>() & DEFINED_FLAGS[0], rng.gen::<u8>() & DEFINED_FLAGS[1]];
                req.hdr.src = Pid { clock: rng.gen(), port: rng.gen() };
                if req.hdr.src == own {
                    continue;
                }
                req.hdr.log_interval = rng.gen();
                req.hdr.minor_version = rng.gen_range(0..16);
                let t = lattice_time(&mut rng);
                let acts = call!(Call::EventRx(padded(&mut rng, rep, req.encode()), time_from_units(t)), "Delay_Req receive");
                let em = check_emitted(rep, "C10", &acts, own, p.domain, p.sdo, &replay);
                rep.ev("delay_req_resp_pair");
                let rs: Vec<&Emit> = em.iter().filter(|e| e.msg.hdr.msg_type == T_DELAY_RESP).collect();
                if rs.len() != 1 || em.len() != 1 {
                    rep.violation("C10|delayresp|count", &format!("{} Delay_Resp / {} frames for one Delay_Req", rs.len(), em.len()), replay.clone());
                    continue;
                }
                let r = &rs[0].msg;
                if r.hdr.seq != seq {
                    rep.violation("C10|delayresp|sequence", &format!("Delay_Resp seq {} for request seq {seq}", r.hdr.seq), replay.clone());
                }
                if let Body::DelayResp { receive, requesting } = &r.body {
                    if *requesting != req.hdr.src {
                        rep.violation("C10|delayresp|requesting-identity", &format!("requestingPortIdentity {requesting:?}, requester was {:?}", req.hdr.src), replay.clone());
                    }
                    let got = receive.to_units() as i128 + ((r.hdr.correction as i128) << 16);
                    let want = (t & !0xffffu128) as i128 + ((corr as i128) << 16);
                    let sub = ((t & 0xffff_ffff) >> 16) as i128;
                    let representable = (corr as i128 + sub) <= i64::MAX as i128;
                    if representable {
                        if got != want || receive.nanos >= 1_000_000_000 {
                            rep.violation("C10|delayresp|timestamp", &format!("t_rx={t} corr_req={corr}: receiveTimestamp {receive:?} + correction {} = {got}, expected {want}", r.hdr.correction), replay.clone());
                        }
                    } else {
                        rep.ev("delayresp_correction_sum_unrepresentable");
                        // the sum does not fit the field: anything but wrap-around to a small/negative value
                        if r.hdr.correction < corr {
                            rep.violation("C10|delayresp|correction-wrapped", &format!("t_rx={t} corr_req={corr}: correction {} wrapped around", r.hdr.correction), replay.clone());
                        }
                    }
                }
                if r.hdr.flag(F_TWO_STEP) {
                    rep.violation("C10|delayresp|two-step-flag", "Delay_Resp carries the request's twoStepFlag", replay.clone());
                }
            }
            2 => {
                // Announce
                let acts = call!(Call::AnnounceTimer, "announce timer");
                let em = check_emitted(rep, "C10", &acts, own, p.domain, p.sdo, &replay);
                match em.iter().find(|e| e.msg.hdr.msg_type == T_ANNOUNCE) {
                    Some(a) => seqs.check(rep, T_ANNOUNCE, a.msg.hdr.seq, &replay),
                    None => rep.violation("C10|announce|not-emitted", "master port emitted no Announce on its announce timer", replay.clone()),
                }
            }
            3 => {
                // Pdelay_Req -> Pdelay_Resp (+ Follow_Up)
                let seq: u16 = rng.gen();
                let corr = lattice_corr(&mut rng);
                let mut req = requester.pdelay_req(seq, corr);
                req.hdr.src = Pid { clock: rng.gen(), port: rng.gen() };
                req.hdr.flags = [rng.gen::<u8>() & DEFINED_FLAGS[0], rng.gen::<u8>() & DEFINED_FLAGS[1]];
                let t2 = lattice_time(&mut rng);
                let acts = call!(Call::EventRx(padded(&mut rng, rep, req.encode()), time_from_units(t2)), "Pdelay_Req receive");
                let em = check_emitted(rep, "C10", &acts, own, p.domain, p.sdo, &replay);
                rep.ev("pdelay_req_resp_pair");
                if faulty_phase {
                    rep.ev("pdelay_req_to_faulty_port");
                }
                let mut ctx = None;
                for a in acts {
                    if let Act::SendEvent { ctx: c, .. } = a {
                        ctx = c;
                    }
                }
                let rs: Vec<&Emit> = em.iter().filter(|e| e.msg.hdr.msg_type == T_PDELAY_RESP).collect();
                if rs.len() != 1 || em.len() != 1 || ctx.is_none() {
                    rep.violation("C10|pdelayresp|count", &format!("{} Pdelay_Resp / {} frames for one Pdelay_Req", rs.len(), em.len()), replay.clone());
                    continue;
                }
                let r = &rs[0].msg;
                if !rs[0].link_local {
                    rep.violation("C10|pdelayresp|link-local", "Pdelay_Resp not marked link-local", replay.clone());
                }
                if r.hdr.seq != seq {
                    rep.violation("C10|pdelayresp|sequence", &format!("Pdelay_Resp seq {} for request {seq}", r.hdr.seq), replay.clone());
                }
                if let Body::PdelayResp { request_receipt, requesting } = &r.body {
                    if *requesting != req.hdr.src {
                        rep.violation("C10|pdelayresp|requesting-identity", &format!("{requesting:?} vs {:?}", req.hdr.src), replay.clone());
                    }
                    if request_receipt.to_units() != (t2 >> 32) << 32 {
                        rep.violation("C10|pdelayresp|timestamp", &format!("t2={t2}: requestReceiptTimestamp {request_receipt:?}"), replay.clone());
                    }
                }
                let t3 = lattice_time(&mut rng);
                let acts = call!(Call::TxTimestamp(ctx.unwrap(), time_from_units(t3)), "Pdelay_Resp tx timestamp");
                let em = check_emitted(rep, "C10", &acts, own, p.domain, p.sdo, &replay);
                let fs: Vec<&Emit> = em.iter().filter(|e| e.msg.hdr.msg_type == T_PDELAY_RESP_FU).collect();
                if fs.len() != 1 || em.len() != 1 {
                    rep.violation("C10|pdelayrespfu|count", &format!("{} Pdelay_Resp_Follow_Up / {} frames", fs.len(), em.len()), replay.clone());
                    continue;
                }
                let f = &fs[0].msg;
                if f.hdr.seq != seq {
                    rep.violation("C10|pdelayrespfu|sequence", &format!("seq {} for request {seq}", f.hdr.seq), replay.clone());
                }
                if let Body::PdelayRespFu { response_origin, requesting } = &f.body {
                    if *requesting != req.hdr.src {
                        rep.violation("C10|pdelayrespfu|requesting-identity", &format!("{requesting:?} vs {:?}", req.hdr.src), replay.clone());
                    }
                    if response_origin.to_units() != (t3 >> 32) << 32 {
                        rep.violation("C10|pdelayrespfu|timestamp", &format!("t3={t3}: responseOriginTimestamp {response_origin:?}"), replay.clone());
                    }
                }
            }
            _ => {
                // P2P ports: Pdelay_Req sequence numbers (any state)
                if p.p2p {
                    let acts = call!(Call::DelayRequestTimer, "delay request timer");
                    let em = check_emitted(rep, "C10", &acts, own, p.domain, p.sdo, &replay);
                    if let Some(r) = em.iter().find(|e| e.msg.hdr.msg_type == T_PDELAY_REQ) {
                        seqs.check(rep, T_PDELAY_REQ, r.msg.hdr.seq, &replay);
                    }
                }
            }
        }
        rep.evaluations += 1;
    }
}

/// slave-side Delay_Req sequence numbers incl. wrap
fn run_slave_seq(rep: &mut Report, n: u32, seed: u64) {
    let replay = json!({"slave_seq": n, "seed": seed});
    let mut b = Build::new(4);
    b.seed = seed;
    let Ok(built) = b.build() else { return };
    let mut node = built.node;
    let mut remote = Remote::new(8, 1);
    if make_slave(&mut node, 0, &mut remote).is_err() {
        return;
    }
    let (clk, pn) = node.port_identity_bytes(0);
    let own = Pid { clock: clk, port: pn };
    let mut seqs = Seqs { last: Default::default() };
    for _ in 0..n {
        match node.call(0, Call::DelayRequestTimer) {
            Ok(acts) => {
                let em = check_emitted(rep, "C10", &acts, own, 0, 0, &replay);
                if let Some(r) = em.iter().find(|e| e.msg.hdr.msg_type == T_DELAY_REQ) {
                    seqs.check(rep, T_DELAY_REQ, r.msg.hdr.seq, &replay);
                } else {
                    rep.violation("C10|delayreq|not-emitted", "slave port emitted no Delay_Req on its delay request timer", replay.clone());
                }
            }
            Err(e) => {
                rep.violation(&format!("C10|panic|{}|{}", e.site(), e.class()), &format!("delay request timer panicked: {}", e.message), replay.clone());
                return;
            }
        }
        rep.evaluations += 1;
    }
}

pub fn run(rep: &mut Report, tier: &str, seed: u64, shard: (u32, u32), replay: Option<&str>) {
    rep.rule = "histories of master-port operations (Sync+timestamp, Delay_Req, Announce, Pdelay_Req+timestamp, Pdelay_Req timer) with lattice/random 80-bit timestamps, correction fields and request headers; every emitted frame decoded; distinct = distinct (configuration, seed) histories; non-trivial = every operation emitted at least one frame".into();
    rep.require(&["emitted_frame", "sync_followup_pair", "delay_req_resp_pair", "pdelay_req_resp_pair", "seq_Sync", "seq_Announce", "seq_DelayReq", "seq_PDelayReq", "seq_wrap_Sync", "seq_wrap_Announce", "seq_wrap_DelayReq", "request_frame_with_octets_after_the_message"]);
    if let Some(path) = replay {
        let v: serde_json::Value = serde_json::from_str(&std::fs::read_to_string(path).unwrap()).unwrap();
        if let Ok(p) = serde_json::from_value::<Params>(v["case"].clone()) {
            run_case(rep, &p);
        }
        println!("replay: {} finding(s)", rep.findings.len());
        for f in rep.findings.values() {
            println!("  {}", f.what);
        }
        return;
    }
    let mut rng = StdRng::seed_from_u64(seed ^ 0xc10 ^ ((shard.0 as u64) << 40));
    if shard.0 == 0 {
        // counter wrap: 70 000 emissions per type
        let p = Params { domain: 0, sdo: 0, p2p: false, seed: seed ^ 1, ops: 3 * 70_000, wrap: true };
        run_case(rep, &p);
        rep.distinct_case("wrap-master");
        run_slave_seq(rep, 70_000, seed ^ 2);
        rep.distinct_case("wrap-slave");
        let p = Params { domain: 0, sdo: 0, p2p: true, seed: seed ^ 3, ops: 2000, wrap: false };
        run_case(rep, &p);
    }
    let n: u64 = if tier == "thorough" { 3000 } else { 400 };
    let budget = Budget::new(n, if tier == "thorough" { 600.0 } else { 20.0 });
    let mut i = 0;
    while budget.left(i) && budget.time_left() {
        i += 1;
        let p = Params {
            domain: if rng.gen_bool(0.5) { 0 } else { rng.gen() },
            sdo: if rng.gen_bool(0.5) { 0 } else { rng.gen_range(0..0x1000) },
            p2p: rng.gen_bool(0.4),
            seed: rng.gen(),
            ops: 400,
            wrap: false,
        };
        run_case(rep, &p);
        rep.distinct_case(&format!("{p:?}"));
        if i <= 2 {
            rep.sample(serde_json::to_value(&p).unwrap());
        }
    }
}
