//! vp - runtime-monitoring harness for statime (see /verif/DESIGN.md)
//!
//! usage: vp <check> [--tier quick|thorough] [--seed N] [--shard i/n] [--out file] [--replay file]

mod c01;
mod c02;
mod c03;
mod c04;
mod c05;
mod c06;
mod c07;
mod c08;
mod c09;
mod c10;
mod c11;
mod c12;
mod c13;
mod c14;
mod c15;
mod c16;
mod c17;
mod c18;
mod c19;
mod c20;
mod drive;
mod exporter;
mod hostile;
mod node;
mod refbmca;
mod refcodec;
mod report;
mod sim;

use report::Report;

fn main() {
    let args: Vec<String> = std::env::args().collect();
    if args.len() < 2 {
        eprintln!("usage: vp <check> [--tier quick|thorough] [--seed N] [--shard i/n] [--out file] [--replay file]");
        std::process::exit(2);
    }
    let check = args[1].clone();
    let mut tier = "quick".to_string();
    let mut seed: u64 = 1;
    let mut shard = (0u32, 1u32);
    let mut out: Option<String> = None;
    let mut replay: Option<String> = None;
    let mut i = 2;
    while i < args.len() {
        match args[i].as_str() {
            "--tier" => {
                tier = args[i + 1].clone();
                i += 1;
            }
            "--seed" => {
                seed = args[i + 1].parse().unwrap_or(1);
                i += 1;
            }
            "--shard" => {
                let p: Vec<&str> = args[i + 1].split('/').collect();
                shard = (p[0].parse().unwrap(), p[1].parse().unwrap());
                i += 1;
            }
            "--out" => {
                out = Some(args[i + 1].clone());
                i += 1;
            }
            "--replay" => {
                replay = Some(args[i + 1].clone());
                i += 1;
            }
            other => {
                eprintln!("unknown argument {other}");
                std::process::exit(2);
            }
        }
        i += 1;
    }
    node::install_panic_hook();
    let _ = &replay;
    let mut rep = Report::new(&check.to_uppercase(), &tier, seed, shard);
    match check.as_str() {
        "selftest" => match refcodec::selftest() {
            Ok(n) => {
                println!("refcodec selftest ok ({n} vectors)");
                return;
            }
            Err(e) => {
                eprintln!("refcodec selftest FAILED: {e}");
                std::process::exit(2);
            }
        },
        "c01" => c01::run(&mut rep, &tier, seed, shard, replay.as_deref()),
        "c02" => c02::run(&mut rep, &tier, seed, shard, replay.as_deref()),
        "c03" => c03::run(&mut rep, &tier, seed, shard, replay.as_deref()),
        "c04" => c04::run(&mut rep, &tier, seed, shard, replay.as_deref()),
        "c05" => c05::run(&mut rep, &tier, seed, shard, replay.as_deref()),
        "c06" => c06::run(&mut rep, &tier, seed, shard, replay.as_deref()),
        "c07" => c07::run(&mut rep, &tier, seed, shard, replay.as_deref()),
        "c08" => c08::run(&mut rep, &tier, seed, shard, replay.as_deref()),
        "c09" => c09::run(&mut rep, &tier, seed, shard, replay.as_deref()),
        "c10" => c10::run(&mut rep, &tier, seed, shard, replay.as_deref()),
        "c11" => c11::run(&mut rep, &tier, seed, shard, replay.as_deref()),
        "c12" => c12::run(&mut rep, &tier, seed, shard, replay.as_deref()),
        "c13" => c13::run(&mut rep, &tier, seed, shard, replay.as_deref()),
        "c14" => c14::run(&mut rep, &tier, seed, shard, replay.as_deref()),
        "c15" => c15::run(&mut rep, &tier, seed, shard, replay.as_deref()),
        "c16" => c16::run(&mut rep, &tier, seed, shard),
        "c17" => c17::run(&mut rep, &tier, seed, shard, replay.as_deref()),
        "c18" => c18::run(&mut rep, &tier, seed, shard, replay.as_deref()),
        "c19" => c19::run(&mut rep, &tier, seed, shard, replay.as_deref()),
        "c20" => c20::run(&mut rep, &tier, seed, shard, replay.as_deref()),
        other => {
            eprintln!("unknown check {other}");
            std::process::exit(2);
        }
    }
    // monitor-wide C17 clause: nested acquisition anywhere in this run
    let nested = node::NESTED_EVENTS.lock().unwrap().clone();
    rep.extra.insert("lock_acquisitions".into(), serde_json::json!(node::LOCK_ACQUISITIONS.load(std::sync::atomic::Ordering::Relaxed)));
    rep.extra.insert("lock_max_acquisitions_per_call".into(), serde_json::json!(node::LOCK_MAX_PER_CALL.load(std::sync::atomic::Ordering::Relaxed)));
    rep.extra.insert("nested_lock_events".into(), serde_json::json!(nested));
    rep.extra.insert("poison_events".into(), serde_json::json!(node::POISON_EVENTS.load(std::sync::atomic::Ordering::Relaxed)));
    let js = serde_json::to_string(&rep.to_json()).unwrap();
    match out {
        Some(p) => std::fs::write(p, js).unwrap(),
        None => println!("{js}"),
    }
}
