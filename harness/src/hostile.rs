//! Stateful hostile host driver: random instance configurations, protocol-driven state setup and
//! adversarial host calls. Ops are concrete (bytes, timestamps) so that a recorded history can be
//! replayed exactly (C03 replays, C07 two-run comparison, C08/C12/C17 workloads).

use std::sync::{Arc, Mutex};

use rand::rngs::StdRng;
use rand::{Rng, SeedableRng};
use statime::config::{ClockAccuracy, ClockQuality, DelayMechanism, PtpMinorVersion};
use statime::filters::KalmanConfiguration;
use statime::observability::port::PortState;
use statime::port::TimestampContext;
use statime::time::Interval;

use crate::c04::{rand_msg, rand_tlvs};
use crate::drive::*;
use crate::node::*;
use crate::refcodec::*;

#[derive(Clone, Debug, serde::Serialize, serde::Deserialize)]
pub struct PortSpec {
    pub p2p: bool,
    pub master_only: bool,
    pub log_announce: i8,
    pub log_sync: i8,
    pub log_delay: i8,
    pub receipt_timeout: u8,
    #[serde(with = "crate::report::s_i128")]
    pub asymmetry: i128,
    /// 0 any, 1 list containing the scripted masters, 2 list without them
    pub aml: u8,
    pub minor_zero: bool,
}

#[derive(Clone, Debug, serde::Serialize, serde::Deserialize)]
pub struct Config {
    pub id: u8,
    pub p1: u8,
    pub class: u8,
    pub slave_only: bool,
    pub path_trace: bool,
    pub domain: u8,
    pub sdo: u16,
    /// 0 kalman, 1 basic, 2 recording
    pub filter: u8,
    /// 0 none, 1 real forwarder, 2 scripted
    pub tlv: u8,
    pub ports: Vec<PortSpec>,
    pub clock_fail_every: u32,
    pub seed: u64,
    #[serde(with = "crate::report::s_u128")]
    pub start: u128,
}

#[derive(Clone, Debug, serde::Serialize, serde::Deserialize)]
pub enum Op {
    Event {
        port: usize,
        data: String,
        #[serde(with = "crate::report::s_u128")]
        t: u128,
    },
    General {
        port: usize,
        data: String,
    },
    /// report the transmit timestamp of the `which`-th outstanding event send of the port
    TxTs {
        port: usize,
        which: usize,
        #[serde(with = "crate::report::s_u128")]
        t: u128,
    },
    /// forget an outstanding event send (lost timestamp)
    DropTx {
        port: usize,
        which: usize,
    },
    Timer {
        port: usize,
        kind: usize,
    },
    Bmca,
    SlaveOnly(bool),
    Quality(u8),
    /// advance the node clock's true time (ns)
    Advance(u64),
}

impl Op {
    pub fn kind(&self) -> String {
        match self {
            Op::Event { data, .. } => format!("Event:{}", msg_kind(data)),
            Op::General { data, .. } => format!("General:{}", msg_kind(data)),
            Op::TxTs { .. } => "TxTs".into(),
            Op::DropTx { .. } => "DropTx".into(),
            Op::Timer { kind, .. } => format!("Timer:{}", crate::sim::TIMER_NAMES[*kind]),
            Op::Bmca => "Bmca".into(),
            Op::SlaveOnly(_) => "SetSlaveOnly".into(),
            Op::Quality(_) => "SetClockQuality".into(),
            Op::Advance(_) => "Advance".into(),
        }
    }
}

fn msg_kind(hexdata: &str) -> &'static str {
    if hexdata.len() < 4 {
        return "short";
    }
    let b0 = u8::from_str_radix(&hexdata[0..2], 16).unwrap_or(0xff);
    let b1 = u8::from_str_radix(&hexdata[2..4], 16).unwrap_or(0);
    if b1 & 0x0f != 2 {
        return "not-v2";
    }
    type_name(b0 & 0x0f)
}

pub const SCRIPTED_IDS: [u8; 3] = [0x08, 0x60, 0x61];

pub fn build_node(cfg: &Config) -> Result<(Node, Option<Arc<Mutex<RecLog>>>), PanicInfo> {
    let mut inst = default_instance(clock_id(cfg.id));
    inst.priority_1 = cfg.p1;
    inst.clock_quality.clock_class = cfg.class;
    inst.slave_only = cfg.slave_only;
    inst.path_trace = cfg.path_trace;
    inst.domain_number = cfg.domain;
    inst.sdo_id = statime::config::SdoId::try_from(cfg.sdo).unwrap_or_default();
    let rec = RecLog::new(ReplyMode::EchoDelay);
    let filter = match cfg.filter {
        0 => FilterCfg::Kalman(KalmanConfiguration::default()),
        1 => FilterCfg::Basic(0.25),
        _ => FilterCfg::Rec(rec.clone()),
    };
    let mut ports = vec![];
    for (i, ps) in cfg.ports.iter().enumerate() {
        let aml = match ps.aml {
            0 => Aml::Any,
            1 => Aml::List(SCRIPTED_IDS.iter().map(|i| clock_id(*i)).chain([clock_id(cfg.id)]).collect()),
            _ => Aml::List(vec![clock_id(0xee)]),
        };
        let mut pc = default_port(aml);
        pc.announce_interval = Interval::from_log_2(ps.log_announce);
        pc.sync_interval = Interval::from_log_2(ps.log_sync);
        pc.announce_receipt_timeout = ps.receipt_timeout;
        pc.delay_mechanism = if ps.p2p { DelayMechanism::P2P { interval: Interval::from_log_2(ps.log_delay) } } else { DelayMechanism::E2E { interval: Interval::from_log_2(ps.log_delay) } };
        pc.master_only = ps.master_only;
        pc.delay_asymmetry = dur_from_units(ps.asymmetry);
        pc.minor_ptp_version = if ps.minor_zero { PtpMinorVersion::Zero } else { PtpMinorVersion::One };
        ports.push(PortCfg { cfg: pc, filter: filter.clone(), rng_seed: cfg.seed.wrapping_mul(31).wrapping_add(i as u64) });
    }
    let tlv = match cfg.tlv {
        0 => TlvMode::None,
        1 => TlvMode::Real,
        _ => TlvMode::Scripted,
    };
    let clock = Arc::new(Mutex::new(SimClock::new(cfg.start, cfg.start, 0.0)));
    clock.lock().unwrap().fail_every = if cfg.clock_fail_every > 0 { Some(cfg.clock_fail_every) } else { None };
    let node = Node::new(NodeCfg { inst, tp: Default::default(), ports, tlv }, clock)?;
    Ok((node, if cfg.filter >= 2 { Some(rec) } else { None }))
}

pub fn gen_config(rng: &mut StdRng) -> Config {
    let n_ports = [1usize, 1, 2, 2, 3][rng.gen_range(0..5)];
    let slave_only = rng.gen_bool(0.15);
    let ports = (0..n_ports)
        .map(|_| PortSpec {
            p2p: rng.gen_bool(0.35),
            master_only: !slave_only && rng.gen_bool(0.12),
            log_announce: [-3i8, 0, 0, 1, 4][rng.gen_range(0..5)],
            log_sync: [-7i8, -3, 0, 1][rng.gen_range(0..4)],
            log_delay: [-7i8, -3, 0, 1, 5][rng.gen_range(0..5)],
            receipt_timeout: [0u8, 2, 3, 10, 255][rng.gen_range(0..5)],
            asymmetry: [0i128, 1 << 40, -(1i128 << 40), (1i128 << 62)][rng.gen_range(0..4)],
            aml: [0u8, 0, 0, 1, 2][rng.gen_range(0..5)],
            minor_zero: rng.gen_bool(0.2),
        })
        .collect();
    Config {
        id: 0x50,
        p1: [128u8, 128, 0, 255][rng.gen_range(0..4)],
        class: if slave_only { 255 } else { [6u8, 127, 128, 248, 248][rng.gen_range(0..5)] },
        slave_only,
        path_trace: rng.gen_bool(0.5),
        domain: if rng.gen_bool(0.8) { 0 } else { rng.gen() },
        sdo: if rng.gen_bool(0.8) { 0 } else { rng.gen_range(0..0x1000) },
        filter: rng.gen_range(0..3),
        tlv: rng.gen_range(0..3),
        ports,
        clock_fail_every: [0u32, 0, 0, 2, 5][rng.gen_range(0..5)],
        seed: rng.gen(),
        start: [3 * SEC, 1_700_000_000 * SEC, ((1u128 << 48) - 100) * SEC, (1u128 << 62) << 32][rng.gen_range(0..4)],
    }
}

/// executes concrete ops on a node
pub struct Exec {
    pub node: Node,
    pub rec: Option<Arc<Mutex<RecLog>>>,
    pub pending: Vec<Vec<TimestampContext>>,
    pub cfg: Config,
    /// decoded frames emitted by the last op: (port, msg)
    pub last_tx: Vec<(usize, Vec<u8>, bool)>,
}

pub struct OpResult {
    /// digests of the actions per port (for two-run comparison)
    pub digests: Vec<String>,
}

impl Exec {
    pub fn new(cfg: &Config) -> Result<Exec, PanicInfo> {
        let (node, rec) = build_node(cfg)?;
        let n = node.n_ports();
        let mut e = Exec { node, rec, pending: (0..n).map(|_| vec![]).collect(), cfg: cfg.clone(), last_tx: vec![] };
        let init = std::mem::take(&mut e.node.initial_actions);
        for (p, acts) in init.into_iter().enumerate() {
            e.absorb(p, acts);
        }
        Ok(e)
    }

    fn absorb(&mut self, port: usize, acts: Vec<Act>) -> Vec<String> {
        let mut d = vec![];
        for a in acts {
            d.push(format!("p{port}:{}", a.digest()));
            match a {
                Act::SendEvent { ctx, data, .. } => {
                    self.last_tx.push((port, data, true));
                    if let Some(c) = ctx {
                        if self.pending[port].len() < 6 {
                            self.pending[port].push(c);
                        }
                    }
                }
                Act::SendGeneral { data, .. } => self.last_tx.push((port, data, false)),
                Act::ForwardTlv { tlv: Some(t), .. } => self.node.forward_tlv(port, t),
                _ => {}
            }
        }
        d
    }

    pub fn apply(&mut self, op: &Op) -> Result<OpResult, PanicInfo> {
        self.last_tx.clear();
        let mut digests = vec![];
        match op {
            Op::Event { port, data, t } => {
                let acts = self.node.call(*port, Call::EventRx(unhex(data), time_from_units(*t)))?;
                digests = self.absorb(*port, acts);
            }
            Op::General { port, data } => {
                let acts = self.node.call(*port, Call::GeneralRx(unhex(data)))?;
                digests = self.absorb(*port, acts);
            }
            Op::TxTs { port, which, t } => {
                if *which < self.pending[*port].len() {
                    let ctx = self.pending[*port].remove(*which);
                    let acts = self.node.call(*port, Call::TxTimestamp(ctx, time_from_units(*t)))?;
                    digests = self.absorb(*port, acts);
                }
            }
            Op::DropTx { port, which } => {
                if *which < self.pending[*port].len() {
                    self.pending[*port].remove(*which);
                }
            }
            Op::Timer { port, kind } => {
                let call = match kind {
                    0 => Call::AnnounceTimer,
                    1 => Call::SyncTimer,
                    2 => Call::DelayRequestTimer,
                    3 => Call::AnnounceReceiptTimer,
                    _ => Call::FilterUpdateTimer,
                };
                let acts = self.node.call(*port, call)?;
                digests = self.absorb(*port, acts);
            }
            Op::Bmca => {
                let all = self.node.bmca()?;
                for (p, acts) in all.into_iter().enumerate() {
                    digests.extend(self.absorb(p, acts));
                }
            }
            Op::SlaveOnly(v) => self.node.set_slave_only(*v)?,
            Op::Quality(c) => {
                let q = ClockQuality { clock_class: *c, clock_accuracy: ClockAccuracy::Unknown, offset_scaled_log_variance: 0xffff };
                self.node.set_clock_quality(q)?;
            }
            Op::Advance(ns) => {
                let mut c = self.node.clock.lock().unwrap();
                let t = c.true_now + ((*ns as u128) << 32);
                c.set_true(t);
            }
        }
        Ok(OpResult { digests })
    }

    pub fn states(&self) -> Vec<PortState> {
        (0..self.node.n_ports()).map(|p| self.node.port_state(p)).collect()
    }
}

// ------------------------------------------------------------------------------------------
// adaptive op generator

fn lattice_corr(rng: &mut StdRng) -> i64 {
    match rng.gen_range(0..10) {
        0 => 0,
        1 => 1,
        2 => -1,
        3 => 1 << 47,
        4 => -(1 << 47),
        5 => i64::MIN,
        6 => i64::MAX,
        7 => i64::MAX - 1,
        _ => rng.gen(),
    }
}

fn lattice_ts(rng: &mut StdRng) -> Ts {
    match rng.gen_range(0..8) {
        0 => Ts { secs: 0, nanos: 0 },
        1 => Ts { secs: 0, nanos: 1 },
        2 => Ts { secs: 0, nanos: 999_999_999 },
        3 => Ts { secs: (1 << 48) - 1, nanos: 999_999_999 },
        4 => Ts { secs: (1 << 48) - 1, nanos: u32::MAX },
        5 => Ts { secs: rng.gen_range(0..(1u64 << 48)), nanos: rng.gen() },
        _ => Ts { secs: rng.gen_range(0..(1u64 << 48)), nanos: rng.gen_range(0..1_000_000_000) },
    }
}

fn adversarial_time(rng: &mut StdRng) -> u128 {
    let max_ns: u128 = 1u128 << 63;
    let ns = match rng.gen_range(0..8) {
        0 => 0,
        1 => 1,
        2 => 999_999_999,
        3 => max_ns - 1,
        4 => rng.gen_range(0..10_000_000_000u128),
        _ => rng.gen_range(0..max_ns),
    };
    (ns << 32) | if rng.gen_bool(0.5) { rng.gen_range(0..(1u128 << 32)) } else { 0 }
}

pub struct Gen {
    pub rng: StdRng,
    pub adversarial_time: bool,
    pub remotes: Vec<Remote>,
    seqs: u16,
}

impl Gen {
    pub fn new(seed: u64, adversarial_time: bool, cfg: &Config) -> Gen {
        let mut remotes: Vec<Remote> = SCRIPTED_IDS.iter().map(|i| Remote::new(*i, 1)).collect();
        for r in remotes.iter_mut() {
            r.src.domain = cfg.domain;
            r.src.sdo = cfg.sdo;
        }
        remotes[0].body.gm_priority1 = 1; // better than everything
        remotes[1].body.gm_priority1 = 250;
        remotes[2].body.gm_priority1 = 100;
        Gen { rng: StdRng::seed_from_u64(seed), adversarial_time, remotes, seqs: 0 }
    }

    fn time(&mut self, ex: &Exec) -> u128 {
        if self.adversarial_time {
            adversarial_time(&mut self.rng)
        } else {
            ex.node.clock.lock().unwrap().read()
        }
    }

    /// the Announce room of a master port of this instance (for TLV sizes around the margins)
    fn tlv_room(&self, ex: &Exec) -> usize {
        let pt = ex.node.inst().path_trace_ds();
        let mut room: usize = 1024 - 64;
        if pt.enable {
            room = room.saturating_sub(4 + 8 * (pt.list.len() + 1).min(128));
        }
        room
    }

    fn announce_from(&mut self, ex: &Exec, src: &Src, body: AnnounceBody, flags: [u8; 2]) -> Msg {
        self.seqs = self.seqs.wrapping_add(1);
        let mut m = src.announce(self.seqs, body);
        m.hdr.flags = flags;
        let room = self.tlv_room(ex);
        match self.rng.gen_range(0..10) {
            0..=3 => {}
            4 => m.tlvs = rand_tlvs(&mut self.rng),
            5 => {
                // path trace with a chosen number of entries
                let n = [0usize, 1, 2, 126, 127, 128, 129, 200, 240][self.rng.gen_range(0..9)];
                let mut v = vec![];
                for i in 0..n {
                    if self.rng.gen_bool(0.02) {
                        v.extend_from_slice(&clock_id(ex.cfg.id).0);
                    } else {
                        v.extend_from_slice(&[0xaa, 0xbb, (i >> 8) as u8, i as u8, 1, 2, 3, 4]);
                    }
                }
                m.tlvs = vec![Tlv::new(TLV_PATH_TRACE, v)];
                if self.rng.gen_bool(0.3) {
                    m.tlvs.push(Tlv::new(TLV_ORG_EXT_PROP, vec![7; 10]));
                }
            }
            6 | 7 => {
                // one propagating TLV sized around the Announce room of the master ports
                let wire = (room as i64 + [-6i64, -4, -2, 0, 2, 4][self.rng.gen_range(0..6)]).max(4) as usize;
                let ty = [TLV_ORG_EXT_PROP, TLV_ALT_TIME_OFFSET, 0x7f00][self.rng.gen_range(0..3)];
                m.tlvs = vec![Tlv::new(ty, vec![0x42; wire.saturating_sub(4)])];
            }
            8 => {
                // several TLVs whose sizes add up to the room exactly / almost / just beyond it
                // (each one fits on its own; together they probe the margin accounting)
                let mut left = (room as i64 + [-4i64, -2, 0, 0, 2, 4, 6][self.rng.gen_range(0..7)]).max(16) as usize;
                let mut v = vec![];
                while left >= 8 && v.len() < 6 {
                    let w = if v.len() == 5 || left < 40 { left } else { (self.rng.gen_range(8..=left.min(400)) / 2) * 2 };
                    v.push(Tlv::new(TLV_ORG_EXT_PROP, vec![v.len() as u8; w.saturating_sub(4)]));
                    left = left.saturating_sub(w.max(4));
                }
                m.tlvs = v;
            }
            _ => {
                // frame length around the buffer limits
                let target = [1023usize, 1024, 1025, 1500, 2046, 2047, 2048][self.rng.gen_range(0..7)];
                let vlen = target.saturating_sub(64 + 4);
                m.tlvs = vec![Tlv::new(if self.rng.gen_bool(0.5) { TLV_ORG_EXT_PROP } else { TLV_PAD }, vec![1; vlen])];
            }
        }
        m
    }

    fn some_source(&mut self, ex: &Exec) -> Src {
        // the current parent with high probability, else a scripted remote, the instance itself, random
        let pd = ex.node.inst().parent_ds();
        let parent = Pid { clock: pd.parent_port_identity.clock_identity.0, port: pd.parent_port_identity.port_number };
        let mut s = match self.rng.gen_range(0..10) {
            0..=4 => Src { pid: parent, domain: ex.cfg.domain, sdo: ex.cfg.sdo, minor_version: 1 },
            5..=7 => {
                let i = self.rng.gen_range(0..self.remotes.len());
                self.remotes[i].src.clone()
            }
            8 => Src { pid: Pid { clock: clock_id(ex.cfg.id).0, port: self.rng.gen_range(0..4) }, domain: ex.cfg.domain, sdo: ex.cfg.sdo, minor_version: 1 },
            _ => Src { pid: Pid { clock: self.rng.gen(), port: self.rng.gen() }, domain: ex.cfg.domain, sdo: ex.cfg.sdo, minor_version: 1 },
        };
        if self.rng.gen_bool(0.03) {
            s.domain = s.domain.wrapping_add(1);
        }
        s
    }

    fn own_pid(&self, ex: &Exec, port: usize) -> Pid {
        let (c, p) = ex.node.port_identity_bytes(port);
        Pid { clock: c, port: p }
    }

    /// next op, chosen with knowledge of the node's state
    pub fn next(&mut self, ex: &Exec) -> Op {
        let n = ex.node.n_ports();
        let port = self.rng.gen_range(0..n);
        let r = self.rng.gen_range(0..100);
        match r {
            0..=7 => Op::Timer { port, kind: self.rng.gen_range(0..5) },
            8..=11 => Op::Bmca,
            12 => Op::SlaveOnly(self.rng.gen_bool(0.5)),
            13 => Op::Quality([6u8, 127, 128, 248, 255, 0][self.rng.gen_range(0..6)]),
            14..=16 => Op::Advance([0u64, 1, 1_000_000, 125_000_000, 1_000_000_000, 3_000_000_000][self.rng.gen_range(0..6)]),
            17..=24 => {
                if ex.pending[port].is_empty() {
                    Op::Timer { port, kind: [1usize, 2][self.rng.gen_range(0..2)] }
                } else if self.rng.gen_bool(0.1) {
                    Op::DropTx { port, which: self.rng.gen_range(0..ex.pending[port].len()) }
                } else {
                    let t = self.time(ex);
                    Op::TxTs { port, which: self.rng.gen_range(0..ex.pending[port].len()), t }
                }
            }
            25..=44 => {
                // Announce
                let src = self.some_source(ex);
                let mut body = AnnounceBody::default();
                let ri = self.rng.gen_range(0..self.remotes.len());
                body.gm_identity = if self.rng.gen_bool(0.8) { src.pid.clock } else { self.remotes[ri].body.gm_identity };
                body.gm_priority1 = [1u8, 100, 128, 250, self.rng.gen()][self.rng.gen_range(0..5)];
                body.gm_class = [6u8, 127, 128, 248, 255, self.rng.gen()][self.rng.gen_range(0..6)];
                body.gm_accuracy = self.rng.gen();
                body.steps_removed = [0u16, 1, 5, 254, 255, 256, 65535][self.rng.gen_range(0..7)];
                body.utc_offset = [0i16, 37, i16::MIN, i16::MAX][self.rng.gen_range(0..4)];
                body.time_source = self.rng.gen();
                let flags = [self.rng.gen::<u8>() & DEFINED_FLAGS[0], self.rng.gen::<u8>()];
                let m = self.announce_from(ex, &src, body, flags);
                let data = hex(&m.encode());
                if self.rng.gen_bool(0.1) {
                    let t = self.time(ex);
                    Op::Event { port, data, t }
                } else {
                    Op::General { port, data }
                }
            }
            45..=54 => {
                let src = self.some_source(ex);
                self.seqs = self.seqs.wrapping_add(self.rng.gen_range(0..2));
                let two = self.rng.gen_bool(0.6);
                let m = src.sync(self.seqs, two, lattice_ts(&mut self.rng), lattice_corr(&mut self.rng));
                let t = self.time(ex);
                Op::Event { port, data: hex(&m.encode()), t }
            }
            55..=61 => {
                let src = self.some_source(ex);
                let m = src.follow_up(self.seqs, lattice_ts(&mut self.rng), lattice_corr(&mut self.rng));
                Op::General { port, data: hex(&m.encode()) }
            }
            62..=66 => {
                let src = self.some_source(ex);
                let mut m = src.delay_req(self.rng.gen(), lattice_corr(&mut self.rng));
                m.hdr.flags = [self.rng.gen(), self.rng.gen()];
                let t = self.time(ex);
                Op::Event { port, data: hex(&m.encode()), t }
            }
            67..=72 => {
                // Delay_Resp answering one of our requests (sequence ids near the port's counter)
                let src = self.some_source(ex);
                let req = if self.rng.gen_bool(0.85) { self.own_pid(ex, port) } else { Pid { clock: self.rng.gen(), port: 1 } };
                let seq = if self.rng.gen_bool(0.8) { self.rng.gen_range(0..12) } else { self.rng.gen() };
                let m = src.delay_resp(seq, lattice_ts(&mut self.rng), req, lattice_corr(&mut self.rng));
                Op::General { port, data: hex(&m.encode()) }
            }
            73..=76 => {
                let src = self.some_source(ex);
                let m = src.pdelay_req(self.rng.gen(), lattice_corr(&mut self.rng));
                let t = self.time(ex);
                Op::Event { port, data: hex(&m.encode()), t }
            }
            77..=83 => {
                let src = if self.rng.gen_bool(0.5) { self.remotes[1].src.clone() } else { self.remotes[2].src.clone() };
                let req = if self.rng.gen_bool(0.9) { self.own_pid(ex, port) } else { Pid { clock: self.rng.gen(), port: 1 } };
                let seq = if self.rng.gen_bool(0.85) { self.rng.gen_range(0..12) } else { self.rng.gen() };
                let m = src.pdelay_resp(seq, self.rng.gen_bool(0.6), lattice_ts(&mut self.rng), req, lattice_corr(&mut self.rng));
                let t = self.time(ex);
                Op::Event { port, data: hex(&m.encode()), t }
            }
            84..=88 => {
                let src = if self.rng.gen_bool(0.5) { self.remotes[1].src.clone() } else { self.remotes[2].src.clone() };
                let req = if self.rng.gen_bool(0.9) { self.own_pid(ex, port) } else { Pid { clock: self.rng.gen(), port: 1 } };
                let seq = if self.rng.gen_bool(0.85) { self.rng.gen_range(0..12) } else { self.rng.gen() };
                let m = src.pdelay_resp_fu(seq, lattice_ts(&mut self.rng), req, lattice_corr(&mut self.rng));
                Op::General { port, data: hex(&m.encode()) }
            }
            89..=93 => {
                // arbitrary well-formed message of any type incl. signaling / management
                let t = ALL_TYPES[self.rng.gen_range(0..ALL_TYPES.len())];
                let mut m = rand_msg(&mut self.rng, t);
                if self.rng.gen_bool(0.7) {
                    m.hdr.version = 2;
                    m.hdr.domain = ex.cfg.domain;
                    m.hdr.major_sdo = (ex.cfg.sdo >> 8) as u8;
                    m.hdr.minor_sdo = ex.cfg.sdo as u8;
                }
                let data = hex(&m.encode());
                if self.rng.gen_bool(0.5) {
                    let t = self.time(ex);
                    Op::Event { port, data, t }
                } else {
                    Op::General { port, data }
                }
            }
            _ => {
                // mutated / truncated / random bytes up to 2048
                let t = ALL_TYPES[self.rng.gen_range(0..ALL_TYPES.len())];
                let mut b = rand_msg(&mut self.rng, t).encode();
                match self.rng.gen_range(0..4) {
                    0 => {
                        let n = self.rng.gen_range(0..=b.len());
                        b.truncate(n);
                    }
                    1 => {
                        for _ in 0..self.rng.gen_range(1..5) {
                            if !b.is_empty() {
                                let i = self.rng.gen_range(0..b.len());
                                b[i] ^= 1 << self.rng.gen_range(0..8);
                            }
                        }
                    }
                    2 => {
                        let n = [0usize, 1, 33, 34, 64, 1024, 2047, 2048][self.rng.gen_range(0..8)];
                        b = (0..n).map(|_| self.rng.gen()).collect();
                        if b.len() > 4 {
                            b[1] = (b[1] & 0xf0) | 2;
                        }
                    }
                    _ => {
                        if b.len() > 4 {
                            let l = self.rng.gen::<u16>().to_be_bytes();
                            b[2] = l[0];
                            b[3] = l[1];
                        }
                    }
                }
                let data = hex(&b);
                if self.rng.gen_bool(0.5) {
                    let t = self.time(ex);
                    Op::Event { port, data, t }
                } else {
                    Op::General { port, data }
                }
            }
        }
    }

    /// protocol-driven setup: try to bring the ports into interesting states first
    pub fn setup_ops(&mut self, ex: &Exec) -> Vec<Op> {
        let mut ops = vec![];
        let n = ex.node.n_ports();
        for port in 0..n {
            match self.rng.gen_range(0..5) {
                0 => {}
                1 => ops.push(Op::Timer { port, kind: 3 }),
                2 | 3 => {
                    // two announces from a better (or worse) master, then BMCA
                    let ri = self.rng.gen_range(0..self.remotes.len());
                    for _ in 0..2 {
                        let m = self.remotes[ri].next_announce();
                        ops.push(Op::General { port, data: hex(&m.encode()) });
                    }
                    ops.push(Op::Bmca);
                }
                _ => {
                    // peer delay fault: two responders answer the first request (sequence id 0)
                    ops.push(Op::Timer { port, kind: 2 });
                    let own = self.own_pid(ex, port);
                    let t = ex.node.clock.lock().unwrap().read();
                    for r in [1usize, 2] {
                        let m = self.remotes[r].src.pdelay_resp(0, true, Ts { secs: (t >> 32) as u64 / 1_000_000_000, nanos: 5 }, own, 0);
                        ops.push(Op::Event { port, data: hex(&m.encode()), t });
                    }
                }
            }
        }
        ops
    }
}
