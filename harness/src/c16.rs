//! C16 - time arithmetic and wire time conversions are exact.
//! Oracle: exact integer arithmetic on the public bit representation (2^-32 ns units).

use rand::rngs::StdRng;
use rand::{Rng, SeedableRng};
use serde_json::json;
use statime::observability::port::PortDS;
use statime::time::{Duration, Interval, Time};

use crate::drive::*;
use crate::node::*;
use crate::refcodec::*;
use crate::report::*;

const MAX_T: u128 = (1u128 << 48) * 1_000_000_000u128 << 32; // 2^48 s in units
const MAX_D: i128 = (1i128 << 63) << 32; // 2^63 ns in units

fn time_lattice() -> Vec<u128> {
    let secs: [u128; 7] = [0, 1, 59, (1 << 32) - 1, 1 << 32, (1 << 47) + 12345, (1 << 48) - 1];
    let ns: [u128; 4] = [0, 1, 500_000_000, 999_999_999];
    let sub: [u128; 7] = [0, 1, 1 << 15, 1 << 16, (1 << 16) - 1, ((1u128 << 16) - 1) << 16, (1u128 << 32) - 1];
    let mut v = vec![];
    for s in secs {
        for n in ns {
            for f in sub {
                v.push(((s * 1_000_000_000 + n) << 32) | f);
            }
        }
    }
    v
}

fn dur_lattice() -> Vec<i128> {
    let ns = 1i128 << 32;
    let mags: Vec<i128> = vec![
        0,
        1,
        1 << 15,
        1 << 16,
        (1 << 16) + 1,
        ns - 1,
        ns,
        ns + 1,
        (1_000_000_000 - 1) * ns,
        1_000_000_000 * ns,
        1_000_000_000 * ns + 1,
        10_000_000_000 * ns,
        (1i128 << 47) * ns - 1,
        (1i128 << 47) * ns,
        ((1i128 << 63) - 1) * ns,
        ((1i128 << 63) - 1) * ns + (ns - 1),
    ];
    let mut v = vec![];
    for m in mags {
        v.push(m);
        v.push(-m);
    }
    v.sort();
    v.dedup();
    v
}

fn rand_time(rng: &mut StdRng) -> u128 {
    match rng.gen_range(0..4) {
        0 => rng.gen_range(0..MAX_T),
        1 => {
            // near a second boundary
            let s: u128 = rng.gen_range(0..(1u128 << 48));
            let base = (s * 1_000_000_000) << 32;
            let d: i128 = rng.gen_range(-(3i128 << 32)..(3i128 << 32));
            (base as i128 + d).clamp(0, MAX_T as i128 - 1) as u128
        }
        2 => rng.gen_range(0..(100u128 * SEC)),
        _ => {
            let ns: u128 = rng.gen_range(0..(1u128 << 63));
            (ns << 32) | rng.gen_range(0..(1u128 << 32))
        }
    }
}

fn rand_dur(rng: &mut StdRng) -> i128 {
    match rng.gen_range(0..4) {
        0 => rng.gen_range(-MAX_D + 1..MAX_D),
        1 => rng.gen_range(-(1i128 << 40)..(1i128 << 40)),
        2 => rng.gen_range(-(20_000_000_000i128 << 32)..(20_000_000_000i128 << 32)),
        _ => (rng.gen_range(-(1i128 << 47)..(1i128 << 47)) << 32) | rng.gen_range(0..(1i128 << 32)),
    }
}

pub struct Ctx {
    master: Node,
    slave: Node,
    rec: std::sync::Arc<std::sync::Mutex<RecLog>>,
    remote: Remote,
    pds: PortDS,
    sync_seq: u16,
}

fn setup() -> Result<Ctx, PanicInfo> {
    let mut m = Build::new(1).build()?;
    force_master(&mut m.node, 0)?;
    let mut s = Build::new(2);
    s.rec_reply = ReplyMode::Never;
    let mut s = s.build()?;
    let mut remote = Remote::new(9, 1);
    make_slave(&mut s.node, 0, &mut remote)?;
    let pds = s.node.port_ref(0).port_ds();
    Ok(Ctx { master: m.node, slave: s.node, rec: s.rec.unwrap(), remote, pds, sync_seq: 100 })
}

fn viol(rep: &mut Report, clause: &str, class: &str, detail: String, replay: serde_json::Value) {
    rep.violation(&format!("C16|{clause}|{class}"), &format!("{clause}: {detail}"), replay);
}

fn check_time_dur(rep: &mut Report, t: u128, d: i128) {
    let tt = time_from_units(t);
    let dd = dur_from_units(d);
    rep.ev("time_plus_duration");
    let exact = t as i128 + d;
    if exact >= 0 && exact < (1i128 << 126) {
        match guarded(|| {
            let s = tt + dd;
            (time_units(s), time_units(s - dd))
        }) {
            Ok((s, back)) => {
                if s as i128 != exact {
                    viol(rep, "time+duration", if d < 0 { "neg" } else { "pos" }, format!("t={t} d={d}: got {s}, exact {exact}"), json!({"t": t.to_string(), "d": d.to_string()}));
                }
                if back != t {
                    viol(rep, "(t+d)-d", "roundtrip", format!("t={t} d={d}: got {back}"), json!({"t": t.to_string(), "d": d.to_string()}));
                }
            }
            Err(p) => viol(rep, "time+duration", "panic", format!("t={t} d={d}: {}", p.message), json!({"t": t.to_string(), "d": d.to_string()})),
        }
    } else {
        rep.ev("time_plus_duration_out_of_domain");
    }
    let exact = t as i128 - d;
    if exact >= 0 && exact < (1i128 << 126) {
        match guarded(|| time_units(tt - dd)) {
            Ok(s) => {
                if s as i128 != exact {
                    viol(rep, "time-duration", if d < 0 { "neg" } else { "pos" }, format!("t={t} d={d}: got {s}, exact {exact}"), json!({"t": t.to_string(), "d": d.to_string()}));
                }
            }
            Err(p) => viol(rep, "time-duration", "panic", format!("t={t} d={d}: {}", p.message), json!({"t": t.to_string(), "d": d.to_string()})),
        }
    }
}

fn check_time_time(rep: &mut Report, a: u128, b: u128) {
    rep.ev("time_minus_time");
    let exact = a as i128 - b as i128;
    match guarded(|| dur_units(time_from_units(a) - time_from_units(b))) {
        Ok(v) => {
            if v != exact {
                viol(rep, "time-time", "value", format!("a={a} b={b}: got {v}, exact {exact}"), json!({"a": a.to_string(), "b": b.to_string()}));
            }
        }
        Err(p) => viol(rep, "time-time", "panic", format!("a={a} b={b}: {}", p.message), json!({"a": a.to_string(), "b": b.to_string()})),
    }
}

fn check_dur_dur(rep: &mut Report, a: i128, b: i128) {
    rep.ev("duration_arith");
    let r = guarded(|| {
        let x = dur_from_units(a);
        let y = dur_from_units(b);
        (dur_units(x + y), dur_units(x - y), dur_units(-x), dur_units(x.abs()), x.cmp(&y))
    });
    match r {
        Ok((s, m, n, ab, c)) => {
            if s != a + b || m != a - b || n != -a || ab != a.abs() || c != a.cmp(&b) {
                viol(rep, "duration-arith", "value", format!("a={a} b={b}: sum {s} diff {m} neg {n} abs {ab}"), json!({"a": a.to_string(), "b": b.to_string()}));
            }
        }
        Err(p) => viol(rep, "duration-arith", "panic", format!("a={a} b={b}: {}", p.message), json!({"a": a.to_string(), "b": b.to_string()})),
    }
}

fn check_accessors(rep: &mut Report, t: u128) {
    rep.ev("time_accessors");
    let tt = time_from_units(t);
    match guarded(|| (tt.secs(), tt.subsec_nanos())) {
        Ok((s, n)) => {
            let es = (t / SEC) as u64;
            let en = ((t % SEC) >> 32) as u32;
            if s != es || n != en {
                viol(rep, "secs/subsec_nanos", "value", format!("t={t}: got ({s},{n}) exact ({es},{en})"), json!({"t": t.to_string()}));
            }
        }
        Err(p) => viol(rep, "secs/subsec_nanos", "panic", format!("t={t}: {}", p.message), json!({"t": t.to_string()})),
    }
    // constructors
    let ns = (t >> 32) as u64;
    if (t >> 32) < (1u128 << 64) {
        let sub = (t & 0xffff_ffff) as u32;
        if let Ok(v) = guarded(|| time_units(Time::from_nanos_subnanos(ns, sub))) {
            if v != t {
                viol(rep, "from_nanos_subnanos", "value", format!("t={t}: got {v}"), json!({"t": t.to_string()}));
            }
        }
        if let Ok(v) = guarded(|| time_units(Time::from_nanos(ns))) {
            if v != (ns as u128) << 32 {
                viol(rep, "from_nanos", "value", format!("ns={ns}: got {v}"), json!({"ns": ns}));
            }
        }
    }
    let secs = (t / SEC) as u64;
    match guarded(|| time_units(Time::from_secs(secs))) {
        Ok(v) => {
            if v != (secs as u128) * SEC {
                viol(rep, "from_secs", "value", format!("secs={secs}: got {v}"), json!({"secs": secs}));
            }
        }
        Err(p) => viol(rep, "from_secs", "panic", format!("secs={secs}: {}", p.message), json!({"secs": secs})),
    }
}

/// wire TimeInterval pattern -> Duration -> TimeInterval
fn check_interval_bits(rep: &mut Report, ctx: &mut Ctx, bits: i64) {
    rep.ev("time_interval_roundtrip");
    let mut pds = ctx.pds;
    let r = guarded(|| {
        pds.delay_asymmetry.0 = fixed::types::I48F16::from_bits(bits);
        let d: Duration = Duration::from(pds.delay_asymmetry);
        let du = dur_units(d);
        pds.delay_asymmetry = d.into();
        (du, pds.delay_asymmetry.0.to_bits())
    });
    match r {
        Ok((du, back)) => {
            if du != (bits as i128) << 16 {
                viol(rep, "timeinterval->duration", "value", format!("bits={bits}: got {du}"), json!({"bits": bits}));
            }
            if back != bits {
                viol(rep, "timeinterval roundtrip", "value", format!("bits={bits}: got {back}"), json!({"bits": bits}));
            }
        }
        Err(p) => viol(rep, "timeinterval roundtrip", "panic", format!("bits={bits}: {}", p.message), json!({"bits": bits})),
    }
}

/// Duration -> TimeInterval must be floor to 2^-16 ns within the representable range and must
/// not silently wrap outside of it.
fn check_dur_to_interval(rep: &mut Report, ctx: &mut Ctx, d: i128) {
    rep.ev("duration_to_time_interval");
    let mut pds = ctx.pds;
    let r = guarded(|| {
        pds.delay_asymmetry = dur_from_units(d).into();
        pds.delay_asymmetry.0.to_bits()
    });
    let exact = d >> 16; // arithmetic shift = floor
    let representable = exact >= i64::MIN as i128 && exact <= i64::MAX as i128;
    match r {
        Ok(bits) => {
            if representable {
                if bits as i128 != exact {
                    viol(rep, "duration->timeinterval", "value", format!("d={d}: got {bits}, exact floor {exact}"), json!({"d": d.to_string()}));
                }
            } else {
                rep.ev("duration_to_time_interval_unrepresentable");
                let sat = if exact < 0 { i64::MIN } else { i64::MAX };
                if bits != sat {
                    viol(
                        rep,
                        "duration->timeinterval",
                        "silent-wrap-out-of-range",
                        format!("d={d} (|d| >= 2^47 ns) converts to {bits} without error: silent wrap-around"),
                        json!({"d": d.to_string()}),
                    );
                }
            }
        }
        Err(_) => {
            if representable {
                viol(rep, "duration->timeinterval", "panic", format!("d={d}"), json!({"d": d.to_string()}));
            }
        }
    }
}

fn check_log_interval(rep: &mut Report, n: i8) {
    rep.ev("log_interval");
    // 2^n seconds is an f64 for every i8 (2^-128 .. 2^127): exact, and never a panic
    match guarded(|| (Interval::from_log_2(n).seconds(), Interval::from_log_2(n).as_log_2())) {
        Ok((s, l)) => {
            let exact_bits = ((1023i64 + n as i64) as u64) << 52;
            if s.to_bits() != exact_bits || l != n {
                viol(rep, "log-interval", "seconds", format!("n={n}: seconds() = {s:e} (exact 2^{n}), as_log_2() = {l}"), json!({"n": n}));
            }
        }
        Err(p) => viol(rep, "log-interval", "panic", format!("n={n}: seconds(): {}", p.message), json!({"n": n})),
    }
    if (n as i32) < -41 {
        // not a whole number of units of 2^-32 ns: whichever way it is rounded, it is within
        // one unit of 1953125 * 2^(n+41)
        if let Ok(u) = guarded(|| dur_units(Interval::from_log_2(n).as_duration())) {
            let exact_f = 1953125.0f64 * 2f64.powi(n as i32 + 41);
            if (u as f64 - exact_f).abs() > 1.0 {
                viol(rep, "log-interval", "value", format!("n={n}: as_duration() = {u} units of 2^-32 ns, 2^{n} s is {exact_f} units"), json!({"n": n}));
            }
        }
    }
    // 2^n s in units = 1953125 * 2^(n+41)
    let sh = n as i32 + 41;
    let exact: Option<i128> = if sh >= 0 && sh <= 105 { Some(1953125i128 << sh) } else { None };
    let Some(exact) = exact else {
        rep.ev("log_interval_unrepresentable");
        return;
    };
    let r = guarded(|| {
        (
            dur_units(Duration::from_log_interval(n)),
            dur_units(Interval::from_log_2(n).as_duration()),
            dur_units(Duration::from_interval(Interval::from_log_2(n))),
            Interval::from_log_2(n).seconds(),
            Interval::from_log_2(n).as_log_2(),
        )
    });
    match r {
        Ok((a, b, c, s, l)) => {
            if a != exact || b != exact || c != exact || s != 2f64.powi(n as i32) || l != n {
                viol(rep, "log-interval", "value", format!("n={n}: from_log_interval {a}, as_duration {b}, from_interval {c}, exact {exact}"), json!({"n": n}));
            }
        }
        Err(p) => viol(rep, "log-interval", "panic", format!("n={n}: {}", p.message), json!({"n": n})),
    }
    if (-30..=30).contains(&n) {
        if let Ok(cd) = guarded(|| Interval::from_log_2(n).as_core_duration()) {
            let ns = cd.as_secs() as u128 * 1_000_000_000 + cd.subsec_nanos() as u128;
            let exact_ns = if n >= 0 { 1_000_000_000u128 << n } else { 1_000_000_000u128 >> (-n) };
            if ns != exact_ns && n >= -9 {
                viol(rep, "log-interval", "core-duration", format!("n={n}: {ns} ns vs {exact_ns}"), json!({"n": n}));
            }
        }
    }
}

/// t -> (wire timestamp, correction) through a real master port's Follow_Up and Delay_Resp
fn check_wire_forward(rep: &mut Report, ctx: &mut Ctx, t: u128) -> Result<(), PanicInfo> {
    rep.ev("wire_forward");
    let acts = ctx.master.call(0, Call::SyncTimer)?;
    let mut fu = None;
    for a in acts {
        if let Act::SendEvent { ctx: Some(c), .. } = a {
            let acts2 = ctx.master.call(0, Call::TxTimestamp(c, time_from_units(t)))?;
            for a2 in acts2 {
                if let Act::SendGeneral { data, .. } = a2 {
                    fu = Some(data);
                }
            }
        }
    }
    let Some(data) = fu else {
        rep.inconclusive("master emitted no Follow_Up");
        return Ok(());
    };
    let m = Msg::decode(&data).map_err(|e| PanicInfo { message: format!("refcodec cannot decode Follow_Up: {e}"), location: String::new(), nested_lock: false, repo_frame: None })?;
    if let Body::FollowUp { precise_origin } = m.body {
        if m.hdr.correction < 0 {
            viol(rep, "wire-forward", "negative-correction", format!("t={t}"), json!({"t": t.to_string()}));
        } else {
            let back = precise_origin.to_units() + ((m.hdr.correction as u128) << 16);
            if back > t || t - back >= (1 << 16) || precise_origin.nanos >= 1_000_000_000 || m.hdr.correction >= (1 << 16) {
                viol(
                    rep,
                    "wire-forward",
                    "followup",
                    format!("t={t}: originTimestamp {precise_origin:?} + correction {} = {back}", m.hdr.correction),
                    json!({"t": t.to_string()}),
                );
            }
        }
    }
    Ok(())
}

/// wire timestamp -> Time through a real slave port (one-step Sync; measurement seen by RecFilter)
fn check_wire_backward(rep: &mut Report, ctx: &mut Ctx, ts: Ts, corr: i64, rx: u128) -> Result<(), PanicInfo> {
    rep.ev("wire_backward");
    ctx.sync_seq = ctx.sync_seq.wrapping_add(1);
    let msg = ctx.remote.src.sync(ctx.sync_seq, false, ts, corr);
    let before = ctx.rec.lock().unwrap().events.len();
    ctx.slave.call(0, Call::EventRx(msg.encode(), time_from_units(rx)))?;
    let ev = ctx.rec.lock().unwrap().events[before..].to_vec();
    let exact_recv = rx as i128 - ((corr as i128) << 16);
    let exact = exact_recv - ts.to_units() as i128;
    let mut seen = false;
    for e in ev {
        if let RecEvent::Measurement { m, .. } = e {
            seen = true;
            let got = m.raw_sync_offset.map(dur_units);
            if exact_recv >= 0 {
                if got != Some(exact) || time_units(m.event_time) as i128 != exact_recv {
                    viol(
                        rep,
                        "wire-backward",
                        "sync-offset",
                        format!("origin {ts:?} corr {corr} rx {rx}: raw_sync_offset {got:?} (exact {exact}), event_time {} (exact {exact_recv})", time_units(m.event_time)),
                        json!({"secs": ts.secs, "nanos": ts.nanos, "corr": corr, "rx": rx.to_string()}),
                    );
                }
            } else {
                rep.ev("wire_backward_out_of_domain");
            }
        }
    }
    if !seen && exact_recv >= 0 {
        viol(rep, "wire-backward", "no-measurement", format!("origin {ts:?} corr {corr} rx {rx}"), json!({"secs": ts.secs, "nanos": ts.nanos, "corr": corr, "rx": rx.to_string()}));
    }
    Ok(())
}

pub fn run(rep: &mut Report, tier: &str, seed: u64, shard: (u32, u32)) {
    rep.rule = "boundary lattices of Time/Duration/TimeInterval/log-interval operands enumerated completely (each lattice point = one case), plus seeded random operands; a case is non-trivial when an operation's exact result is inside the representable domain; distinct = distinct operand tuples".into();
    rep.require(&["time_plus_duration", "time_minus_time", "duration_arith", "time_accessors", "time_interval_roundtrip", "duration_to_time_interval", "log_interval", "wire_forward", "wire_backward"]);
    let mut ctx = match setup() {
        Ok(c) => c,
        Err(p) => {
            rep.inconclusive(&format!("setup panicked: {} at {}", p.message, p.location));
            return;
        }
    };
    let mut rng = StdRng::seed_from_u64(seed ^ 0xc16 ^ ((shard.0 as u64) << 32));
    let tl = time_lattice();
    let dl = dur_lattice();
    if shard.0 == 0 {
        // exhaustive lattices
        for &t in &tl {
            check_accessors(rep, t);
            rep.evaluations += 1;
            for &d in &dl {
                check_time_dur(rep, t, d);
                rep.evaluations += 1;
                rep.distinct_case(&format!("td{t},{d}"));
            }
        }
        for (i, &a) in tl.iter().enumerate() {
            for &b in tl.iter().skip(i % 3).step_by(3) {
                check_time_time(rep, a, b);
                rep.evaluations += 1;
                rep.distinct_case(&format!("tt{a},{b}"));
            }
        }
        for &a in &dl {
            for &b in &dl {
                if a.abs() < MAX_D / 2 + (1 << 40) || b.abs() < (1 << 80) {
                    if (a + b).abs() < (1i128 << 126) {
                        check_dur_dur(rep, a, b);
                        rep.evaluations += 1;
                    }
                }
            }
            check_dur_to_interval(rep, &mut ctx, a);
            rep.evaluations += 1;
        }
        for n in i8::MIN..=i8::MAX {
            check_log_interval(rep, n);
            rep.evaluations += 1;
            rep.distinct_case(&format!("li{n}"));
        }
        // all 2^16 patterns of each 16-bit slice of a TimeInterval, rest random
        let slices = if tier == "thorough" { 4 } else { 4 };
        let step = if tier == "thorough" { 1 } else { 7 };
        for sl in 0..slices {
            let rest: i64 = rng.gen();
            let mut v = 0u32;
            while v < 65536 {
                let mask = !(0xffffi64 << (16 * sl));
                let bits = (rest & mask) | ((v as i64) << (16 * sl));
                check_interval_bits(rep, &mut ctx, bits);
                rep.evaluations += 1;
                rep.distinct_case(&format!("ti{bits}"));
                v += step;
            }
        }
        for bits in [0i64, 1, -1, i64::MAX, i64::MIN, i64::MIN + 1, 1 << 16, -(1 << 16), (1 << 16) - 1, 0x7fff_0000_0000_0000u64 as i64] {
            check_interval_bits(rep, &mut ctx, bits);
        }
        // wire lattices
        for &t in &tl {
            if ctx.master.dead {
                break;
            }
            if let Err(p) = check_wire_forward(rep, &mut ctx, t) {
                viol(rep, "wire-forward", "panic", format!("t={t}: {} at {}", p.message, p.location), json!({"t": t.to_string()}));
                break;
            }
            rep.evaluations += 1;
        }
        let ts_l = [
            Ts { secs: 0, nanos: 0 },
            Ts { secs: 0, nanos: 1 },
            Ts { secs: 1, nanos: 999_999_999 },
            Ts { secs: (1 << 32) - 1, nanos: 999_999_999 },
            Ts { secs: 1 << 32, nanos: 0 },
            Ts { secs: (1 << 48) - 1, nanos: 999_999_999 },
            Ts { secs: 5, nanos: 1_000_000_000 },
            Ts { secs: 5, nanos: u32::MAX },
        ];
        for ts in ts_l {
            for corr in [0i64, 1, -1, 1 << 16, -(1 << 16), 65535, 123456789] {
                for extra in [0u128, 1, 1 << 16, (1 << 32) - 1, SEC, 10 * SEC] {
                    if ctx.slave.dead {
                        break;
                    }
                    let rx = ts.to_units() + extra + if corr > 0 { (corr as u128) << 16 } else { 0 };
                    if let Err(p) = check_wire_backward(rep, &mut ctx, ts, corr, rx) {
                        viol(rep, "wire-backward", "panic", format!("{ts:?} corr {corr} rx {rx}: {} at {}", p.message, p.location), json!({"secs": ts.secs, "nanos": ts.nanos, "corr": corr, "rx": rx.to_string()}));
                    }
                    rep.evaluations += 1;
                    rep.distinct_case(&format!("wb{ts:?}{corr},{extra}"));
                    if ctx.slave.dead {
                        if let Ok(c) = setup() {
                            ctx = c;
                        }
                    }
                }
            }
        }
        rep.exhaustive = false;
        rep.extra.insert("lattice_exhaustive".into(), json!(true));
        rep.extra.insert("lattice_sizes".into(), json!({"time": tl.len(), "duration": dl.len(), "log_interval": 256}));
    }
    // random part
    let n_random: u64 = if tier == "thorough" { 3_000_000 } else { 300_000 };
    let budget = Budget::new(n_random, if tier == "thorough" { 240.0 } else { 20.0 });
    let mut i = 0u64;
    while budget.left(i) {
        i += 1;
        let t = rand_time(&mut rng);
        let d = rand_dur(&mut rng);
        check_time_dur(rep, t, d);
        let b = rand_time(&mut rng);
        check_time_time(rep, t, b);
        check_dur_dur(rep, d / 2, rand_dur(&mut rng) / 2);
        if i % 4 == 0 {
            check_accessors(rep, t);
            check_interval_bits(rep, &mut ctx, rng.gen());
            check_dur_to_interval(rep, &mut ctx, d);
        }
        if i % 16 == 0 {
            if ctx.master.dead || ctx.slave.dead {
                match setup() {
                    Ok(c) => ctx = c,
                    Err(_) => break,
                }
            }
            if let Err(p) = check_wire_forward(rep, &mut ctx, t) {
                viol(rep, "wire-forward", "panic", format!("t={t}: {} at {}", p.message, p.location), json!({"t": t.to_string()}));
            }
            let ts = Ts { secs: rng.gen_range(0..(1u64 << 48)), nanos: rng.gen_range(0..1_000_000_000) };
            let corr: i64 = if rng.gen_bool(0.5) { rng.gen_range(-(1i64 << 40)..(1i64 << 40)) } else { 0 };
            let rx = ts.to_units() + rng.gen_range(0..(100 * SEC)) + if corr > 0 { (corr as u128) << 16 } else { 0 };
            if let Err(p) = check_wire_backward(rep, &mut ctx, ts, corr, rx) {
                viol(rep, "wire-backward", "panic", format!("{ts:?} corr {corr} rx {rx}: {} at {}", p.message, p.location), json!({"secs": ts.secs, "nanos": ts.nanos, "corr": corr, "rx": rx.to_string()}));
            }
        }
        rep.evaluations += 1;
        rep.distinct_case(&format!("r{t},{d},{b}"));
        if i < 4 {
            rep.sample(json!({"op": "(t + d) - d, t - b", "t_units_2^-32ns": t.to_string(), "d_units": d.to_string(), "b_units": b.to_string()}));
        }
    }
    rep.sample(json!({"lattice_time_point_units": tl[tl.len() / 2].to_string(), "lattice_duration_point_units": dl[3].to_string()}));
}
