#!/usr/bin/env python3
"""Daemon tier: the real `statime` daemon (statime-linux/src/main.rs, socket.rs, observer.rs,
tlvforwarder.rs, clock/) run in private network namespaces on veth links with
`virtual-system-clock = true` (an OverlayClock over CLOCK_TAI: the machine's clock is never
touched), driven and observed from outside:

  * PTP frames injected / sniffed on real UDP multicast sockets inside the namespaces,
  * the daemon's observation socket (JSON) and, for C19, the real metrics exporter,
  * the daemon process itself (exit status, panics in its log).

Scenarios:
  segment  three daemons on one bridged segment; BMCA outcome, fault (SIGSTOP of the grandmaster),
           recovery (C01); the observation JSON against what the wire shows (C19)
  bc       a two-port boundary-clock daemon between a scripted parent and a sniffer: TLV
           forwarding, path trace, loop discard through main.rs' action loop (C15)

Output: one JSON report in the harness' Report format (merged by /verif/check).
Verdicts are three-valued: definite contradictions are findings; an environment that cannot host the
tier (no netns / veth / multicast) is reported as `unavailable` and decides nothing.
"""
import ctypes
import json
import os
import random
import select
import shutil
import signal
import socket
import struct
import subprocess
import sys
import tempfile
import time

CLONE_NEWNET = 0x40000000
libc = ctypes.CDLL("libc.so.6", use_errno=True)
MCAST = "224.0.1.129"
T_ANNOUNCE, T_SYNC, T_FOLLOW_UP, T_DELAY_REQ, T_DELAY_RESP = 0xB, 0x0, 0x8, 0x1, 0x9
TLV_PATH_TRACE = 0x0008


# ----------------------------------------------------------------------------------------------
# report

class Report:
    def __init__(self, prop, tier, seed, label):
        self.r = dict(property=prop, tier=tier, seed=seed, shard=[0, 1], evaluations=0, distinct_hashes=[], distinct_labels=[],
                      rule="", samples=[], events={}, required_events=[], inconclusive=[], observations={}, extra={},
                      exhaustive=False, wall_s=0.0, debug_assertions=False, findings=[], _label=label)
        self.t0 = time.time()
        self.replay_info = {}

    def ev(self, name, n=1):
        self.r["events"][name] = self.r["events"].get(name, 0) + n

    def label(self, s):
        if s not in self.r["distinct_labels"]:
            self.r["distinct_labels"].append(s)

    def observe(self, s):
        self.r["observations"][s] = self.r["observations"].get(s, 0) + 1

    def violation(self, sig, what, replay=None):
        for f in self.r["findings"]:
            if f["signature"] == sig:
                f["count"] += 1
                return
        self.r["findings"].append(dict(signature=sig, what=what, replay=replay or dict(self.replay_info), count=1))

    def done(self):
        self.r["wall_s"] = time.time() - self.t0
        return self.r


# ----------------------------------------------------------------------------------------------
# namespaces

def sh(*args, check=True):
    p = subprocess.run(list(args), stdout=subprocess.PIPE, stderr=subprocess.STDOUT, text=True)
    if check and p.returncode != 0:
        raise RuntimeError(f"{' '.join(args)}: {p.stdout.strip()}")
    return p.stdout


class Net:
    """a set of named network namespaces, removed on close()"""

    def __init__(self, tag):
        self.prefix = f"vp{os.getpid()}{tag}"
        self.names = []
        self.home = os.open("/proc/self/ns/net", os.O_RDONLY)

    def ns(self, name):
        full = self.prefix + name
        sh("ip", "netns", "add", full)
        self.names.append(full)
        sh("ip", "-n", full, "link", "set", "lo", "up")
        return full

    def veth(self, ns_a, if_a, ns_b, if_b, mac_a=None, mac_b=None):
        sh("ip", "link", "add", if_a, "netns", ns_a, "type", "veth", "peer", "name", if_b, "netns", ns_b)
        if mac_a:
            sh("ip", "-n", ns_a, "link", "set", if_a, "address", mac_a)
        if mac_b:
            sh("ip", "-n", ns_b, "link", "set", if_b, "address", mac_b)

    def addr(self, ns, ifc, cidr):
        sh("ip", "-n", ns, "addr", "add", cidr, "dev", ifc)

    def up(self, ns, ifc):
        sh("ip", "-n", ns, "link", "set", ifc, "up")

    def enter(self, ns):
        fd = os.open(f"/run/netns/{ns}", os.O_RDONLY)
        try:
            if libc.setns(fd, CLONE_NEWNET) != 0:
                raise OSError(ctypes.get_errno(), "setns")
        finally:
            os.close(fd)

    def leave(self):
        if libc.setns(self.home, CLONE_NEWNET) != 0:
            raise OSError(ctypes.get_errno(), "setns home")

    def close(self):
        try:
            self.leave()
        except Exception:  # noqa
            pass
        for n in self.names:
            sh("ip", "netns", "del", n, check=False)
        self.names = []


def cleanup_stale():
    """namespaces left behind by a killed earlier run of this tier (creator pid no longer exists)"""
    import re
    out = sh("ip", "netns", "list", check=False)
    for line in out.splitlines():
        name = line.split()[0] if line.split() else ""
        m = re.match(r"^vp(\d+)[a-z]", name)
        if m and not os.path.exists(f"/proc/{m.group(1)}"):
            sh("ip", "netns", "del", name, check=False)


def mc_socket(net, ns, ifname, ifaddr, port):
    """UDP socket inside `ns`, bound to `port` on `ifname`, member of the PTP primary group"""
    net.enter(ns)
    try:
        s = socket.socket(socket.AF_INET, socket.SOCK_DGRAM)
        s.setsockopt(socket.SOL_SOCKET, socket.SO_REUSEADDR, 1)
        s.setsockopt(socket.SOL_SOCKET, socket.SO_BINDTODEVICE, ifname.encode())
        s.bind(("", port))
        mreq = socket.inet_aton(MCAST) + socket.inet_aton(ifaddr)
        s.setsockopt(socket.IPPROTO_IP, socket.IP_ADD_MEMBERSHIP, mreq)
        s.setsockopt(socket.IPPROTO_IP, socket.IP_MULTICAST_IF, socket.inet_aton(ifaddr))
        s.setsockopt(socket.IPPROTO_IP, socket.IP_MULTICAST_TTL, 1)
        s.setsockopt(socket.IPPROTO_IP, socket.IP_MULTICAST_LOOP, 0)
        s.setblocking(False)
        return s
    finally:
        net.leave()


ETH_P_1588 = 0x88F7
PTP_MAC = bytes([0x01, 0x1B, 0x19, 0x00, 0x00, 0x00])


class EthSock:
    """raw layer-2 PTP socket (ethertype 0x88f7) on one interface inside a namespace, with the
    sendto/recvfrom shape of the UDP sockets used elsewhere in this driver"""

    def __init__(self, net, ns, ifname, mac):
        net.enter(ns)
        try:
            self.s = socket.socket(socket.AF_PACKET, socket.SOCK_RAW, socket.htons(ETH_P_1588))
            self.s.bind((ifname, ETH_P_1588))
            idx = socket.if_nametoindex(ifname)
            # PACKET_ADD_MEMBERSHIP, PACKET_MR_MULTICAST for the PTP primary group
            mreq = struct.pack("iHH8s", idx, 0, 6, PTP_MAC + b"\0\0")
            self.s.setsockopt(263, 1, mreq)
            self.s.setblocking(False)
        finally:
            net.leave()
        self.mac = mac

    def sendto(self, data, _addr=None):
        self.s.send(PTP_MAC + self.mac + struct.pack(">H", ETH_P_1588) + data)

    def recvfrom(self, n):
        frame, addr = self.s.recvfrom(n + 14)
        if addr[2] == socket.PACKET_OUTGOING:
            raise BlockingIOError
        return frame[14:], (frame[6:12].hex(), 0)

    def close(self):
        self.s.close()


# ----------------------------------------------------------------------------------------------
# a small independent PTP codec (Announce + TLVs; header of everything)

def enc_announce(clock, port, seq, gm, steps, tlvs=(), p1=128, p2=128, cls=248, acc=0xFE, var=0xFFFF, utc=37, flags=(0, 0x08),
                 domain=0, log_interval=-2, time_source=0xA0):
    body = bytes(10) + struct.pack(">hBBBBHB", utc, 0, p1, cls, acc, var, p2) + gm + struct.pack(">HB", steps, time_source)
    suffix = b"".join(struct.pack(">HH", t, len(v)) + v for t, v in tlvs)
    length = 34 + len(body) + len(suffix)
    hdr = struct.pack(">BBHBBBBq4s8sHHBb", T_ANNOUNCE, 0x12, length, domain, 0, flags[0], flags[1], 0, bytes(4), clock, port, seq, 5, log_interval)
    return hdr + body + suffix


def dec(b):
    if len(b) < 34:
        return None
    t, ver, length, domain, _, f0, f1, corr, _, clock, port, seq, _, logi = struct.unpack(">BBHBBBBq4s8sHHBb", b[:34])
    m = dict(type=t & 0xF, version=ver & 0xF, length=length, domain=domain, flags=(f0, f1), correction=corr, clock=clock, port=port, seq=seq, log_interval=logi, raw=b)
    if m["type"] == T_ANNOUNCE and len(b) >= 64:
        utc, _, p1, cls, acc, var, p2 = struct.unpack(">hBBBBHB", b[44:53])
        gm = b[53:61]
        steps, ts = struct.unpack(">HB", b[61:64])
        m.update(utc=utc, p1=p1, cls=cls, acc=acc, var=var, p2=p2, gm=gm, steps=steps, time_source=ts)
        tlvs = []
        rest = b[64:length]
        ok = True
        while len(rest) >= 4:
            ty, ln = struct.unpack(">HH", rest[:4])
            if 4 + ln > len(rest):
                ok = False
                break
            tlvs.append((ty, rest[4:4 + ln]))
            rest = rest[4 + ln:]
        if len(rest) not in (0,):
            ok = False
        m.update(tlvs=tlvs, tlv_ok=ok)
    return m


def drain(sock, sink, want_type=None):
    while True:
        try:
            data, addr = sock.recvfrom(4096)
        except (BlockingIOError, InterruptedError):
            return
        m = dec(data)
        if m is None:
            continue
        m["t"] = time.time()
        m["from"] = addr[0]
        if want_type is None or m["type"] == want_type:
            sink.append(m)


# ----------------------------------------------------------------------------------------------
# daemons

class Daemon:
    def __init__(self, net, ns, name, workdir, binary, identity, priority1, ports, path_trace=True, slave_only=False, log_announce=-2, receipt_timeout=3, network_mode="ipv4"):
        self.name = name
        self.identity = identity
        self.sock_path = os.path.join(workdir, f"{name}.sock")
        self.log_path = os.path.join(workdir, f"{name}.log")
        cfg = [f'loglevel = "info"', f'identity = "{identity.hex().upper()}"', f"priority1 = {priority1}", "virtual-system-clock = true",
               f"path-trace = {'true' if path_trace else 'false'}", f"slave-only = {'true' if slave_only else 'false'}",
               "[observability]", f'observation-path = "{self.sock_path}"']
        for ifc in ports:
            cfg += ["[[port]]", f'interface = "{ifc}"', f'network-mode = "{network_mode}"', 'hardware-clock = "none"', f"announce-interval = {log_announce}",
                    "sync-interval = -2", "delay-interval = -2", f"announce-receipt-timeout = {receipt_timeout}"]
        self.cfg_path = os.path.join(workdir, f"{name}.toml")
        with open(self.cfg_path, "w") as f:
            f.write("\n".join(cfg) + "\n")
        self.log = open(self.log_path, "w")
        env = dict(os.environ, RUST_BACKTRACE="1", NO_COLOR="1")
        self.p = subprocess.Popen(["ip", "netns", "exec", ns, binary, "-c", self.cfg_path], stdout=self.log, stderr=subprocess.STDOUT, env=env)

    def alive(self):
        return self.p.poll() is None

    def obs(self, timeout=2.0):
        """one read of the observation socket, None if not (yet) available"""
        try:
            s = socket.socket(socket.AF_UNIX)
            s.settimeout(timeout)
            s.connect(self.sock_path)
            data = b""
            while True:
                c = s.recv(65536)
                if not c:
                    break
                data += c
            s.close()
            return json.loads(data)
        except (OSError, ValueError):
            return None

    def states(self):
        o = self.obs()
        if not o:
            return None
        return [p["port_state"] for p in o["instance"]["port_ds"]]

    def stop(self, sig=signal.SIGSTOP):
        os.kill(self.child_pid(), sig)

    def child_pid(self):
        # `ip netns exec` execs the daemon in place: same pid
        return self.p.pid

    def log_tail(self, n=15):
        try:
            with open(self.log_path) as f:
                return "".join(f.readlines()[-n:])
        except OSError:
            return ""

    def panicked(self):
        try:
            with open(self.log_path) as f:
                txt = f.read()
        except OSError:
            return None
        i = txt.find("panicked at")
        return txt[i:i + 300] if i >= 0 else None

    def kill(self):
        if self.alive():
            try:
                os.kill(self.p.pid, signal.SIGCONT)
            except OSError:
                pass
            self.p.terminate()
            try:
                self.p.wait(3)
            except subprocess.TimeoutExpired:
                self.p.kill()
        self.log.close()


def wait_for(cond, timeout, step=0.25):
    t0 = time.time()
    while time.time() - t0 < timeout:
        v = cond()
        if v:
            return v, time.time() - t0
        time.sleep(step)
    return None, time.time() - t0


def cid(b):
    return bytes(b)


def check_daemons(rep, prop, daemons, where):
    """definite process-level failures: a daemon that exited or panicked"""
    bad = False
    for d in daemons:
        pn = d.panicked()
        if pn:
            rep.violation(f"{prop}|daemon|panic|{where}", f"daemon {d.name} panicked: {pn}")
            bad = True
        elif not d.alive():
            rep.violation(f"{prop}|daemon|exited|{where}", f"daemon {d.name} exited with status {d.p.returncode}: {d.log_tail(8)}")
            bad = True
    return bad


# ----------------------------------------------------------------------------------------------
# environment probe

def probe(workdir):
    """can this sandbox host the tier? two namespaces, a veth pair, one multicast datagram"""
    net = Net("p")
    try:
        a, b = net.ns("a"), net.ns("b")
        net.veth(a, "pa", b, "pb", "00:11:22:33:40:01", "00:11:22:33:40:02")
        net.addr(a, "pa", "10.99.0.1/24")
        net.addr(b, "pb", "10.99.0.2/24")
        net.up(a, "pa")
        net.up(b, "pb")
        time.sleep(0.3)
        sa = mc_socket(net, a, "pa", "10.99.0.1", 320)
        sb = mc_socket(net, b, "pb", "10.99.0.2", 320)
        got = []
        for _ in range(20):
            sa.sendto(enc_announce(b"\x01" * 8, 1, 7, b"\x01" * 8, 0), (MCAST, 320))
            time.sleep(0.1)
            drain(sb, got)
            if got:
                break
        sa.close()
        sb.close()
        if not got:
            return "multicast datagram did not cross a veth pair between two namespaces"
        return None
    except Exception as e:  # noqa
        return f"{type(e).__name__}: {e}"
    finally:
        net.close()


# ----------------------------------------------------------------------------------------------
# scenario: segment (C01, C19)

def scenario_segment(rep, prop, binary, workdir, seed, deadline):
    """C01 owns the convergence / fault / flap clauses, C19 the observation clauses; what the running
    property does not own is only a precondition here (recorded as an observation if it fails)"""
    own_conv = prop == "C01"
    own_obs = prop == "C19"
    rng = random.Random(seed)
    net = Net("s")
    daemons = []
    try:
        sw = net.ns("sw")
        sh("ip", "-n", sw, "link", "add", "br0", "type", "bridge")
        sh("ip", "-n", sw, "link", "set", "br0", "type", "bridge", "mcast_snooping", "0")
        net.up(sw, "br0")
        # priorities: a random ranking, ties broken by identity
        prios = [100, 110, 120]
        rng.shuffle(prios)
        specs = []
        for i, nm in enumerate("abc"):
            ns = net.ns(nm)
            net.veth(ns, f"e{nm}", sw, f"s{nm}", f"00:11:22:33:41:0{i + 1}")
            sh("ip", "-n", sw, "link", "set", f"s{nm}", "master", "br0")
            net.up(sw, f"s{nm}")
            net.addr(ns, f"e{nm}", f"10.98.0.{i + 1}/24")
            net.up(ns, f"e{nm}")
            specs.append((ns, nm, bytes([0, 0xFF, 0xFF, 0xFF, 0xFF, 0xFF, 0xFF, 0xA1 + i]), prios[i]))
        # a sniffer port on the segment
        mon = net.ns("mon")
        net.veth(mon, "em", sw, "sm", "00:11:22:33:41:0f")
        sh("ip", "-n", sw, "link", "set", "sm", "master", "br0")
        net.up(sw, "sm")
        net.addr(mon, "em", "10.98.0.9/24")
        net.up(mon, "em")
        time.sleep(0.5)
        sniff = mc_socket(net, mon, "em", "10.98.0.9", 320)
        for ns, nm, ident, p1 in specs:
            daemons.append(Daemon(net, ns, nm, workdir, binary, ident, p1, [f"e{nm}"], log_announce=-2))
        by_prio = sorted(range(3), key=lambda i: (specs[i][3], specs[i][2]))
        best, second = by_prio[0], by_prio[1]
        rep.label(f"segment|ranking={''.join('abc'[i] for i in by_prio)}")

        def converged(gm_idx, members):
            def f():
                res = {}
                for i in members:
                    o = daemons[i].obs()
                    if not o:
                        return None
                    res[i] = o
                for i in members:
                    inst = res[i]["instance"]
                    st = [p["port_state"] for p in inst["port_ds"]]
                    if i == gm_idx:
                        if st != ["Master"] or bytes(inst["parent_ds"]["grandmaster_identity"]) != specs[gm_idx][2]:
                            return None
                    else:
                        if st != ["Slave"] or bytes(inst["parent_ds"]["grandmaster_identity"]) != specs[gm_idx][2]:
                            return None
                return res
            return f

        def judge(phase, gm_idx, members):
            res, took = wait_for(converged(gm_idx, members), deadline)
            rep.ev(f"segment_phase_{phase}")
            rep.r["extra"][f"segment_{phase}_convergence_s"] = round(took, 2)
            if check_daemons(rep, prop, daemons, f"segment-{phase}"):
                return None
            if not res:
                view = {daemons[i].name: (daemons[i].states(), (daemons[i].obs() or {}).get("instance", {}).get("parent_ds", {}).get("grandmaster_identity")) for i in members}
                what = f"three daemons on one segment ({phase}): after {deadline:.0f}s the best-ranked clock {daemons[gm_idx].name} is not the only grandmaster with all others slave: {view}"
                if own_conv:
                    rep.violation(f"{prop}|daemon|segment-not-converged|{phase}", what)
                else:
                    rep.observe("precondition failed (C01's business): " + what[:200])
                return None
            return res

        if own_obs:
            # C19 must not take the thing under test (the observed data sets) as its precondition:
            # convergence is established on the wire (only the best clock announces) and the
            # observation socket is then held against it
            roll = []

            def wire_converged():
                drain(sniff, roll, T_ANNOUNCE)
                now = time.time()
                recent = [m for m in roll if now - m["t"] <= 1.5]
                del roll[:max(0, len(roll) - 200)]
                return len(recent) >= 3 and all(m["clock"] == specs[best][2] for m in recent)

            ok, took = wait_for(wire_converged, deadline)
            rep.r["extra"]["segment_wire_convergence_s"] = round(took, 2)
            if check_daemons(rep, prop, daemons, "segment-initial"):
                return
            if not ok:
                rep.observe("precondition failed (C01's business): the segment did not converge on the wire")
                return
            rep.ev("segment_converged_on_the_wire")

            def states_ok():
                for i in range(3):
                    st = daemons[i].states()
                    if st != (["Master"] if i == best else ["Slave"]):
                        return None
                return True
            ok, _ = wait_for(lambda: wire_converged() and states_ok(), 15.0)
            if not ok:
                view = {daemons[i].name: daemons[i].states() for i in range(3)}
                rep.violation(f"{prop}|daemon|observation|port_ds.port_state",
                              f"only {daemons[best].name} has been announcing for 15 s, but the observation sockets show port states {view}")
                return
            time.sleep(1.0)  # two more BMCA runs: the snapshot served is the one of the last run
            fresh = {i: daemons[i].obs() for i in range(3)}
            drain(sniff, roll, T_ANNOUNCE)
            gm_ann = [m for m in roll if m["clock"] == specs[best][2]]
            if all(fresh.values()) and gm_ann and wire_converged():
                obs_pairs(rep, prop, fresh, best, specs, gm_ann[-1])
                exporter_hop(rep, prop, binary, workdir, daemons, fresh)
            else:
                rep.observe("segment left the converged state before the observation comparison")
            return
        res = judge("initial", best, [0, 1, 2])
        if res is None:
            return
        # steady state must not flap: sample for a while
        flaps = 0
        for _ in range(12):
            time.sleep(0.25)
            if not converged(best, [0, 1, 2])():
                flaps += 1
        rep.ev("segment_steady_samples", 12)
        if flaps > 2 and own_conv:
            rep.violation(f"{prop}|daemon|segment-flaps", f"converged segment left the steady state in {flaps}/12 samples over 3 s")

        # ---- C19 clause against the wire: what the observation socket shows equals what was announced
        drain(sniff, [])  # whatever was announced before the steady state is not judged
        wire = []
        t_end = time.time() + 2.0
        while time.time() < t_end:
            drain(sniff, wire, T_ANNOUNCE)
            time.sleep(0.05)
        rep.ev("announces_sniffed", len(wire))
        gm_ann = [m for m in wire if m["clock"] == specs[best][2]]
        others = [m for m in wire if m["clock"] != specs[best][2]]
        if others and own_conv:
            rep.violation(f"{prop}|daemon|segment-second-master", f"announces from {sorted(set(m['clock'].hex() for m in others))} on a converged segment whose grandmaster is {specs[best][2].hex()}")
        if gm_ann:
            a = gm_ann[-1]
            # the observation socket serves the snapshot taken at the last BMCA run: compare in the
            # steady state, with a fresh read
            fresh = converged(best, [0, 1, 2])()
            if not fresh:
                rep.observe("segment left the converged state before the observation comparison")
            elif own_obs:
                obs_pairs(rep, prop, fresh, best, specs, a)
                exporter_hop(rep, prop, binary, workdir, daemons, fresh)
        elif own_conv:
            rep.violation(f"{prop}|daemon|segment-no-announces", "no Announce of the grandmaster seen on the segment in 2 s")
        if not own_conv:
            return

        # ---- fault: silence the grandmaster, then bring it back
        os.kill(daemons[best].child_pid(), signal.SIGSTOP)
        res2 = judge("gm-silenced", second, [i for i in range(3) if i != best])
        os.kill(daemons[best].child_pid(), signal.SIGCONT)
        if res2 is None:
            return
        judge("gm-restored", best, [0, 1, 2])
    finally:
        for d in daemons:
            d.kill()
        net.close()


def exporter_hop(rep, prop, binary, workdir, daemons, res):
    """the real exporter pointed at a live daemon's observation socket: the daemon-produced JSON must be
    accepted and the served values must be the daemon's"""
    exporter = os.path.join(os.path.dirname(binary), "statime-metrics-exporter")
    if not os.path.exists(exporter):
        rep.observe("exporter binary not built; exporter hop of the daemon tier skipped")
        return
    import urllib.request
    for i, d in enumerate(daemons):
        probe_sock = socket.socket()
        probe_sock.bind(("127.0.0.1", 0))
        port = probe_sock.getsockname()[1]
        probe_sock.close()
        cfg = os.path.join(workdir, f"{d.name}-exporter.toml")
        with open(d.cfg_path) as f:
            txt = f.read()
        txt = txt.replace("[observability]", f'[observability]\nmetrics-exporter-listen = "127.0.0.1:{port}"')
        with open(cfg, "w") as f:
            f.write(txt)
        lg = open(os.path.join(workdir, f"{d.name}-exporter.log"), "w")
        p = subprocess.Popen([exporter, "-c", cfg], stdout=lg, stderr=subprocess.STDOUT)
        try:
            body = None
            t0 = time.time()
            while time.time() - t0 < 20 and body is None:
                try:
                    before = d.obs()
                    with urllib.request.urlopen(f"http://127.0.0.1:{port}/metrics", timeout=5) as r:
                        status, body = r.status, r.read().decode("utf-8", "replace")
                    after = d.obs()
                    if not before or not after or before["instance"] != after["instance"]:
                        body = None  # the state moved while we scraped: again
                except urllib.error.HTTPError as e:
                    rep.violation(f"{prop}|daemon|exporter-hop|http-{e.code}", f"exporter answered {e.code} for the JSON of live daemon {d.name}")
                    return
                except OSError:
                    time.sleep(0.3)
            if body is None:
                if p.poll() is not None:
                    rep.violation(f"{prop}|daemon|exporter-hop|exporter-exited", f"exporter exited with {p.returncode} on the JSON of live daemon {d.name}")
                else:
                    rep.observe("exporter hop: no stable scrape within 20 s")
                return
            rep.ev("exporter_scrapes_of_live_daemon")
            inst = after["instance"]
            vals = {}
            for line in body.splitlines():
                if line.startswith("#") or not line.strip():
                    continue
                name = line.split("{")[0].split(" ")[0]
                try:
                    vals.setdefault(name, []).append((line, float(line.rsplit(" ", 1)[1])))
                except ValueError:
                    pass
            if not body.rstrip().endswith("# EOF"):
                rep.violation(f"{prop}|daemon|exporter-hop|no-eof", "exposition of a live daemon's state does not end with # EOF")
            want = {"statime_steps_removed": inst["current_ds"]["steps_removed"], "statime_number_ports": inst["default_ds"]["number_ports"],
                    "statime_priority_1": inst["default_ds"]["priority_1"], "statime_grandmaster_priority_1": inst["parent_ds"]["grandmaster_priority_1"]}
            for k, v in want.items():
                if k in vals:
                    rep.ev("exporter_values_compared")
                    if vals[k][0][1] != float(v):
                        rep.violation(f"{prop}|daemon|exporter-hop|{k}", f"live daemon {d.name}: metric {vals[k][0][0]} but the observation socket shows {v}")
            rep.r["extra"]["exporter_metric_names_seen"] = sorted(vals.keys())[:60]
        finally:
            p.terminate()
            try:
                p.wait(3)
            except subprocess.TimeoutExpired:
                p.kill()
            lg.close()


def ann_path(ann):
    """entries of the PATH_TRACE TLV of a decoded Announce"""
    for t, v in ann.get("tlvs", []):
        if t == TLV_PATH_TRACE:
            return [v[k:k + 8] for k in range(0, len(v) - 7, 8)]
    return []


def obs_pairs(rep, prop, res, best, specs, ann):
    """observation JSON of every daemon against the grandmaster's Announce as seen on the wire"""
    for i, o in res.items():
        inst = o["instance"]
        pd, cd, tp = inst["parent_ds"], inst["current_ds"], inst["time_properties_ds"]
        who = "abc"[i]
        exp = dict(grandmaster_identity=list(ann["gm"]), grandmaster_priority_1=ann["p1"], grandmaster_priority_2=ann["p2"])
        for k, v in exp.items():
            rep.ev("observation_fields_compared")
            if pd.get(k) != v:
                rep.violation(f"{prop}|daemon|observation|parent_ds.{k}", f"daemon {who}: observation socket shows parent_ds.{k}={pd.get(k)} but the grandmaster announces {v}")
        q = pd.get("grandmaster_clock_quality", {})
        rep.ev("observation_fields_compared")
        if q.get("clock_class") != ann["cls"] or q.get("offset_scaled_log_variance") != ann["var"]:
            rep.violation(f"{prop}|daemon|observation|parent_ds.grandmaster_clock_quality", f"daemon {who}: observation shows {q}, wire class={ann['cls']} variance={ann['var']}")
        steps = 0 if i == best else ann["steps"] + 1
        rep.ev("observation_fields_compared")
        if cd.get("steps_removed") != steps:
            rep.violation(f"{prop}|daemon|observation|current_ds.steps_removed", f"daemon {who}: observation shows steps_removed={cd.get('steps_removed')}, expected {steps}")
        rep.ev("observation_fields_compared")
        want_utc = ann["utc"] if (ann["flags"][1] & 0x04) else None
        if tp.get("current_utc_offset") != want_utc:
            rep.violation(f"{prop}|daemon|observation|time_properties_ds.current_utc_offset", f"daemon {who}: observation shows {tp.get('current_utc_offset')}, wire {want_utc}")
        flags = ann["flags"][1]
        leap = {"NoLeap": 0, "Leap61": 0x01, "Leap59": 0x02}.get(tp.get("leap_indicator"))
        rep.ev("observation_fields_compared")
        if leap is None or leap != (flags & 0x03):
            rep.violation(f"{prop}|daemon|observation|time_properties_ds.leap_indicator", f"daemon {who}: observation shows {tp.get('leap_indicator')}, wire leap flags {flags & 3}")
        for name, bit in (("ptp_timescale", 0x08), ("time_traceable", 0x10), ("frequency_traceable", 0x20)):
            if name in tp:
                rep.ev("observation_fields_compared")
                if bool(tp[name]) != bool(flags & bit):
                    rep.violation(f"{prop}|daemon|observation|time_properties_ds.{name}", f"daemon {who}: observation shows {name}={tp[name]}, wire flag {bool(flags & bit)}")
        ident = inst["default_ds"].get("clock_identity")
        rep.ev("observation_fields_compared")
        if ident != list(specs[i][2]):
            rep.violation(f"{prop}|daemon|observation|default_ds.clock_identity", f"daemon {who}: observation shows identity {ident}, configured {list(specs[i][2])}")
        if inst["default_ds"].get("priority_1") != specs[i][3]:
            rep.violation(f"{prop}|daemon|observation|default_ds.priority_1", f"daemon {who}: observation shows priority_1 {inst['default_ds'].get('priority_1')}, configured {specs[i][3]}")
        if i != best:
            ppi = pd.get("parent_port_identity", {})
            rep.ev("observation_fields_compared")
            if ppi.get("clock_identity") != list(ann["clock"]) or ppi.get("port_number") != ann["port"]:
                rep.violation(f"{prop}|daemon|observation|parent_ds.parent_port_identity", f"daemon {who}: observation shows parent {ppi}, the announcing port is {ann['clock'].hex()}:{ann['port']}")
            pt = inst.get("path_trace_ds", {})
            if pt.get("enable"):
                want = [list(x) for x in ann_path(ann)]
                rep.ev("observation_fields_compared")
                if pt.get("list") != want:
                    rep.violation(f"{prop}|daemon|observation|path_trace_ds.list", f"daemon {who}: observation shows path {pt.get('list')}, expected {want}")


# ----------------------------------------------------------------------------------------------
# scenario: boundary clock (C15)

PROPAGATING = [0x4000, 0x4001, 0x0009, 0x7F00, 0x5123]
NON_PROPAGATING = [0x0003, 0x8000, 0x8008, 0x2004, 0x0001]


def scenario_bc(rep, prop, binary, workdir, seed, deadline, n_rounds, mode="ipv4"):
    rng = random.Random(seed)
    net = Net("b")
    daemons = []
    try:
        nsp, nsb, nss = net.ns("p"), net.ns("bc"), net.ns("s")
        net.veth(nsp, "p0", nsb, "b0", "00:11:22:33:42:01", "00:11:22:33:42:02")
        net.veth(nsb, "b1", nss, "s0", "00:11:22:33:42:03", "00:11:22:33:42:04")
        net.addr(nsp, "p0", "10.97.1.1/24")
        net.addr(nsb, "b0", "10.97.1.2/24")
        net.addr(nsb, "b1", "10.97.2.2/24")
        net.addr(nss, "s0", "10.97.2.1/24")
        for ns, ifc in ((nsp, "p0"), (nsb, "b0"), (nsb, "b1"), (nss, "s0")):
            net.up(ns, ifc)
        time.sleep(0.5)
        if mode == "ethernet":
            tx = EthSock(net, nsp, "p0", bytes.fromhex("001122334201"))
            tx_ev = EthSock(net, nsp, "p0", bytes.fromhex("001122334201"))
            rx = EthSock(net, nss, "s0", bytes.fromhex("001122334204"))
        else:
            tx = mc_socket(net, nsp, "p0", "10.97.1.1", 320)
            tx_ev = mc_socket(net, nsp, "p0", "10.97.1.1", 319)
            rx = mc_socket(net, nss, "s0", "10.97.2.1", 320)
        rep.label(f"bc|{mode}")
        BC = bytes([0, 0xFF, 0xFF, 0xFF, 0xFF, 0xFF, 0xFF, 0xBC])
        P = bytes([0x50, 0, 0, 0, 0, 0, 0, 0x01])
        G = bytes([0x47, 0, 0, 0, 0, 0, 0, 0x02])
        Q = bytes([0x51, 0, 0, 0, 0, 0, 0, 0x03])
        # receipt timeout 8 x 250 ms x (1..2): scheduling hiccups of this driver on a loaded machine must
        # not make the slave port time out in the middle of a phase
        bc = Daemon(net, nsb, "bc", workdir, binary, BC, 128, ["b0", "b1"], path_trace=True, log_announce=-2, receipt_timeout=8, network_mode=mode)
        daemons.append(bc)
        path_p = [G, P]
        seq = rng.randrange(0, 65536)
        seq_q = rng.randrange(0, 65536)
        sent_prop = []   # (type, value) in order, propagating TLVs of the parent
        forbidden = []   # values that must never show up downstream
        got = []
        counter = [0]

        def tag(kind):
            counter[0] += 1
            return struct.pack(">4sHH", b"VPTG", counter[0], kind)

        def send_parent(tlvs=(), p2=128, path=None, steps=1):
            nonlocal seq
            pt = (TLV_PATH_TRACE, b"".join(path if path is not None else path_p))
            tx.sendto(enc_announce(P, 1, seq, G, steps, [pt] + list(tlvs), p1=50, p2=p2), (MCAST, 320))
            seq = (seq + 1) & 0xFFFF

        # establish: parent announces until the BC reports Slave/Master
        def established():
            send_parent()
            st = bc.states()
            return st == ["Slave", "Master"]
        ok, took = wait_for(established, deadline, step=0.25)
        rep.r["extra"]["bc_establish_s"] = round(took, 2)
        if check_daemons(rep, prop, daemons, "bc-establish"):
            return
        if not ok:
            rep.violation(f"{prop}|daemon|bc-not-established", f"boundary clock daemon did not become Slave/Master within {deadline:.0f}s of a better parent announcing on port 1: states {bc.states()}")
            return
        rep.ev("bc_established")
        drain(rx, got, T_ANNOUNCE)
        got.clear()
        # main phase: announces with TLVs, one round per announce interval
        for k in range(n_rounds):
            tlvs = []
            for _ in range(rng.choice([0, 1, 1, 2, 3])):
                if rng.random() < 0.7:
                    ty = rng.choice(PROPAGATING)
                    v = tag(ty) + bytes(rng.randrange(256) for _ in range(2 * rng.randrange(0, 40)))
                    tlvs.append((ty, v))
                    sent_prop.append((ty, v))
                    rep.ev("propagating_tlv_sent")
                else:
                    ty = rng.choice(NON_PROPAGATING)
                    v = tag(ty) + bytes(2 * rng.randrange(0, 8))
                    tlvs.append((ty, v))
                    forbidden.append(v[:8])
                    rep.ev("non_propagating_tlv_sent")
            send_parent(tlvs)
            if rng.random() < 0.3:
                # another (worse, hence unselected) master on the same link sends propagating TLVs too
                v = tag(0x4000) + bytes(6)
                forbidden.append(v[:8])
                tx.sendto(enc_announce(Q, 1, seq_q, Q, 0, [(0x4000, v)], p1=60), (MCAST, 320))
                seq_q = (seq_q + 1) & 0xFFFF
                rep.ev("other_sender_tlv_sent")
            t_next = time.time() + 0.25
            while time.time() < t_next:
                drain(rx, got, T_ANNOUNCE)
                time.sleep(0.02)
        # flush: plain announces until everything sent has had two announce intervals to leave
        for _ in range(8):
            send_parent()
            t_next = time.time() + 0.25
            while time.time() < t_next:
                drain(rx, got, T_ANNOUNCE)
                time.sleep(0.02)
        if check_daemons(rep, prop, daemons, "bc-forwarding"):
            return
        mine = [m for m in got if m["clock"] == BC]
        rep.ev("bc_announces_sniffed", len(mine))
        if len(mine) < n_rounds // 2:
            rep.violation(f"{prop}|daemon|bc-announces-missing", f"only {len(mine)} Announces from the boundary clock's master port in {n_rounds + 8} announce intervals")
            return
        fwd = []
        for m in mine:
            if not m["tlv_ok"]:
                rep.violation(f"{prop}|daemon|bc-announce-undecodable", f"Announce seq {m['seq']} of the boundary clock has a malformed TLV suffix")
                continue
            if m["length"] > 1024 or len(m["raw"]) > 1024:
                rep.violation(f"{prop}|daemon|bc-announce-too-long", f"Announce of {len(m['raw'])} octets")
            pts = [v for t, v in m["tlvs"] if t == TLV_PATH_TRACE]
            rep.ev("bc_path_trace_checked")
            want = b"".join(path_p) + BC
            if len(pts) != 1 or pts[0] != want:
                rep.violation(f"{prop}|daemon|bc-path-trace", f"Announce seq {m['seq']}: PATH_TRACE {[p.hex() for p in pts]}, expected parent path + own identity {want.hex()}")
            if m["gm"] != G or m["steps"] != 2 or m["p1"] != 50:
                rep.violation(f"{prop}|daemon|bc-announce-content", f"Announce seq {m['seq']} advertises gm={m['gm'].hex()} steps={m['steps']} p1={m['p1']}, parent announces gm={G.hex()} steps=1 p1=50")
            fwd += [(t, v) for t, v in m["tlvs"] if t != TLV_PATH_TRACE]
        for t, v in fwd:
            if v[:8] in forbidden:
                rep.violation(f"{prop}|daemon|bc-forwarded-forbidden", f"TLV type {t:#06x} tag {v[:8].hex()} (non-propagating type or not from the parent) was forwarded")
        fwd_ok = [(t, v) for t, v in fwd if v[:8] not in forbidden]
        rep.ev("forwarded_tlvs_compared", len(sent_prop))
        if fwd_ok != sent_prop:
            # classify
            sset, fset = [v[:8] for _, v in sent_prop], [v[:8] for _, v in fwd_ok]
            missing = [x.hex() for x in sset if x not in fset]
            dup = sorted(set(x.hex() for x in fset if fset.count(x) > 1))
            extra = [x.hex() for x in fset if x not in sset]
            if missing:
                kind = "missing"
            elif dup:
                kind = "duplicated"
            elif extra:
                kind = "extra"
            elif fset != sset:
                kind = "reordered"
            else:
                kind = "altered"
            rep.violation(f"{prop}|daemon|bc-forward|{kind}" + ("" if mode == "ipv4" else f"|{mode}"), f"{len(sent_prop)} propagating TLVs sent by the parent, {len(fwd_ok)} forwarded: missing {missing[:5]}, duplicated {dup[:5]}, extra {extra[:5]}")
        # loop phase: every other Announce of the parent carries a path that contains the boundary
        # clock itself, and changed contents; the regular ones in between keep the port slave of it
        got.clear()
        stayed_slave = True
        for _ in range(5):
            for looping in (True, False):
                if looping:
                    send_parent(p2=77, path=[G, BC, P])
                else:
                    send_parent()
                t_next = time.time() + 0.25
                while time.time() < t_next:
                    drain(rx, got, T_ANNOUNCE)
                    time.sleep(0.02)
            if bc.states() != ["Slave", "Master"]:
                stayed_slave = False
        rep.ev("loop_announces_sent", 5)
        if check_daemons(rep, prop, daemons, "bc-loop"):
            return
        if not stayed_slave:
            rep.observe("boundary clock left the Slave/Master state during the loop phase; loop clause not judged")
        else:
            rep.ev("loop_phase_judged")
            for m in [m for m in got if m["clock"] == BC]:
                if m.get("p2") == 77:
                    rep.violation(f"{prop}|daemon|bc-loop-not-discarded", f"Announce seq {m['seq']} of the boundary clock carries contents (priority2 77) of a parent Announce whose path trace contained the boundary clock's own identity")
                    break
            o = bc.obs()
            if o and o["instance"]["parent_ds"].get("grandmaster_priority_2") == 77:
                rep.violation(f"{prop}|daemon|bc-loop-updated-datasets", "parent data set took the contents of a looping Announce from the parent")
        tx.close()
        tx_ev.close()
        rx.close()
    finally:
        for d in daemons:
            d.kill()
        net.close()


# ----------------------------------------------------------------------------------------------

def main():
    import argparse
    ap = argparse.ArgumentParser()
    ap.add_argument("--scenario", required=True, choices=["segment", "bc"])
    ap.add_argument("--property", required=True)
    ap.add_argument("--binary", required=True)
    ap.add_argument("--tier", default="quick")
    ap.add_argument("--seed", type=int, default=1)
    ap.add_argument("--out", required=True)
    a = ap.parse_args()
    signal.signal(signal.SIGTERM, lambda *_: sys.exit(1))  # run the finally blocks (daemons, namespaces)
    rep = Report(a.property, a.tier, a.seed, f"daemon-{a.scenario}#0")
    rep.r["rule"] = "daemon tier: real statime daemons in network namespaces (veth, software timestamps, virtual system clock), driven over UDP multicast and observed through sniffed frames, the observation socket and the process status"
    workdir = tempfile.mkdtemp(prefix="vpdaemon-", dir=os.environ.get("VP_DAEMON_TMP") or os.path.join(os.path.dirname(os.path.dirname(os.path.abspath(__file__))), "target"))
    try:
        cleanup_stale()
        why = probe(workdir)
        if why:
            rep.r["extra"]["daemon_tier"] = f"unavailable: {why}"
            rep.observe(f"daemon tier unavailable in this sandbox ({why}); it decides nothing")
        else:
            rep.r["extra"]["daemon_tier"] = "available"
            reps = 1 if a.tier == "quick" else 4
            for k in range(reps):
                rep.r["evaluations"] += 1
                rep.replay_info = dict(daemon_scenario=a.scenario, scenario_seed=a.seed * 1000 + k, logs=a.out + ".logs",
                                       rerun=f"python3 /verif/daemon/dtier.py --scenario {a.scenario} --property {a.property} --binary {a.binary} --seed {a.seed} --tier {a.tier} --out /tmp/dtier.json")
                if a.scenario == "segment":
                    scenario_segment(rep, a.property, a.binary, workdir, a.seed * 1000 + k, deadline=30.0)
                else:
                    scenario_bc(rep, a.property, a.binary, workdir, a.seed * 1000 + k, deadline=60.0, n_rounds=24 if a.tier == "quick" else 80, mode="ipv4")
                    if not rep.r["findings"]:
                        scenario_bc(rep, a.property, a.binary, workdir, a.seed * 1000 + k + 500, deadline=60.0, n_rounds=24 if a.tier == "quick" else 80, mode="ethernet")
                if rep.r["findings"]:
                    # keep the logs of a failing run next to the report
                    keep = a.out + ".logs"
                    shutil.rmtree(keep, ignore_errors=True)
                    shutil.copytree(workdir, keep, ignore=shutil.ignore_patterns("*.sock"))
                    break
    except Exception as e:  # noqa
        import traceback
        rep.r["inconclusive"].append(f"daemon tier harness error: {type(e).__name__}: {e}: {traceback.format_exc()[-600:]}")
    finally:
        shutil.rmtree(workdir, ignore_errors=True)
    with open(a.out, "w") as f:
        json.dump(rep.done(), f)
    return 0


if __name__ == "__main__":
    sys.exit(main())
