#!/usr/bin/env python3
"""Generates /verif/MANIFEST.json from the table below (kept in one place so it stays consistent)."""
import json
import os

ROOT = os.path.dirname(os.path.abspath(__file__))

# id -> (level category, technique, level text, level note, design ref)
CHECKS = {
    "C01": (
        "fault_enumeration",
        "runtime structural monitor over a discrete-event simulation of real instances (host model mirroring the daemon's timers, timestamps and stop-the-world BMCA): grandmaster from the reference data set comparison, tree/steps/one-master-per-segment checks on observed port states and data sets, flap detection on the port-state event log, one injected fault per topology",
        "Seeded topologies (chains, shared segments, rings, two ports of one instance on one segment incl. BMCA phases aligned with the own-announce arrival window, star, mixed redundant; <= 6 nodes) of real PtpInstances/Ports run in virtual time to a settle bound, are checked structurally, observed 20 intervals for flapping, get one fault (cut/restore link, silence node, quality change) and are checked again. Verdicts use virtual time only. Daemon tier (daemon/dtier.py): three real statime daemons (statime-linux main.rs, sockets, virtual system clock) on a bridged veth segment in network namespaces must elect the best-ranked clock, re-elect after the grandmaster is SIGSTOPped and return to it after SIGCONT, each within 60 s of wall time (measured 0.5-2 s), with no second master's Announces on the wire; skipped (deciding nothing) where the sandbox cannot create namespaces. Nodes draw priority2 from five values with frequent priority1 ties; Announce sequence ids carry per-node offsets so that the 0x7fff->0x8000 and 0xffff->0 crossings fall into the flap-observation window. A slave-only node may be made master-capable at run time (set_slave_only(false), clockClass 248), also on a segment of slave-only clocks only.",
        "Settle bounds (12+4n)I / (16+4n)I after a fault (measured worst convergence is reported in evidence). Redundant topologies run with the path-trace option (without it the protocol counts stepsRemoved to 255 after a grandmaster loss, which is IEEE behaviour). No frame loss (the property speaks of undisturbed traffic); slave-only nodes that would win the election are not judged; clockClass < 128 non-best nodes are leaves.",
        "DESIGN.md section 4 C01",
    ),
    "C02": (
        "exploration",
        "closed-loop runtime monitor: real master port and real slave port with the default Kalman servo run against clock models in a discrete-event simulation; the true offset is computed from the clock models (never from the servo's belief) and sampled every 100 ms of virtual time; step_clock calls come from the recording clock; checked + release builds",
        "Corner and random interior points of the parameter box (offset +-10 s, +-150 ppm, delay 1-400 us, jitter 0-20 us, sync/delay intervals 2^-3..2^1 s, one-/two-step) are each simulated for Tc+300 s. After Tc the true offset must stay within max(1 us, jitter amplitude) and no step may occur. Evidence reports the measured distribution (steady-state offset as a fraction of the bound, last excursion, last step). 20 % of the runs report the slave's transmit timestamps after the round trip; a third use time bases 2^40 s / 2^47 s; start classes without a slow tail on the unchanged tree have per-class deadlines (2x the calibrated worst case). 3 of 7 runs add a second, worse, two-step masterOnly master on the segment whose Sync/Follow_Up sequence ids run in lockstep with the parent's (its clock 0.5 ms..1.7 s away); those runs are judged against the generic bound only.",
        "Bounds are calibrated on the unchanged tree (4000 runs: steady state <= 0.46 x bound, last excursion 215 s / 494 s, last step 402 s) with a factor >= 2: Tc = 450 s (sync <= 1 s) / 1000 s (2 s). Constant oscillator error, symmetric delay, uniform jitter; a run that aborts on a panic says nothing here (C03).",
        "DESIGN.md section 4 C02",
    ),
    "C03": (
        "exploration",
        "runtime panic/assertion/overflow monitor: catch_unwind + panic hook around every host call of a stateful hostile driver over real instances and ports, run in a `checked` build (rustc overflow-checks + debug-assertions = the arithmetic/assertion sanitizer) and in a `release` build; lock poisoning detected by the monitoring mutex",
        "Random configurations (1-3 ports, E2E/P2P, path trace, slave-only, master-only, acceptable master lists, Kalman/Basic/recording filters, the daemon's TlvForwarder or a contract-honouring scripted provider, intermittently failing clocks, clocks near 0 / 2^48 s / 2^62 ns) are first driven into protocol states (incl. Faulty) and then through 250 adaptive hostile host calls each: reference-codec frames with boundary-lattice fields from the current parent / other masters / the instance's own identity, TLVs sized around every margin, PATH_TRACE with 0..240 entries, truncations, bit flips, random bytes up to 2048, timers, transmit timestamps, BMCA runs, run-time setting changes; consistent and adversarial timestamp regimes. Coverage = (port state x call kind x message type) cells hit. Cumulative TLV sizes room-4..room+6; 400-Sync slave histories with estimator boundaries and precision_hysteresis at their extremes.",
        "A clean run says nothing about call sequences that were not generated. Allocation failure / stack overflow would abort the worker and be reported as inconclusive. Silent wrap-around in release builds is judged by the value oracles of C09/C10/C16 on their own histories.",
        "DESIGN.md section 4 C03",
    ),
    "C04": (
        "exploration",
        "runtime differential monitor: independent reference codec + two-run tail-independence comparison + parser of the derived Debug rendering (read side); checked + release builds",
        "Every generated byte string is pushed through the real decoder/encoder (FuzzMessage) and judged by an independently written codec: totality (catch_unwind), declared-length discipline, independence from bytes beyond messageLength (three-run comparison), re-encode length/equality, field-by-field agreement of input and re-encoded bytes on all defined fields, and agreement of each decoded field (Debug rendering) with the reference reading. Systematic sweeps of every 8/16-bit field, all 2^12 flag combinations, TLV layouts and messageLength relations plus seeded random/mutated inputs; holds on the inputs executed. Re-encoding into a 0xff-filled buffer must decode to an equal message; lengthField boundary values 0x7ffe..0xffff. Forwarding path (the only place a decoded TLV is written again field by field): TLVs of every tlvType at the edges of the propagating ranges plus a seeded stride through 0x4000..0x7fff pass through a two-port boundary clock and are read from the emitted Announce by the reference codec.",
        "Trusts refcodec (pinned against the repository's own wire vectors) and, for the read-side clause, the stability of the derived Debug format (a parse failure is reported as inconclusive, never as a violation). Reserved bits/values are masked as the property says.",
        "DESIGN.md section 4 C04",
    ),
    "C05": (
        "exploration",
        "runtime differential monitor: independent reference BMCA (Figures 33-35, tables 30-33 over plain tuples) compared with port states and data sets read through public getters after PtpInstance::bmca on real ports; metamorphic re-run under permuted port slice and Announce arrival order; 1-port/1-master value slice enumerated",
        "Real instances with 1-3 ports (normal, master-only, slave-only, pre-forced Master) hear up to three scripted foreign masters per phase drawn from small exhaustive value domains (priority1, class incl. <128, accuracy, variance, priority2, stepsRemoved 0/1/2/3/254, same grandmaster over different paths, sender identity above/below the receiver); after steady announcing the port states, parentDS, currentDS and timePropertiesDS must equal the reference decision, and must not depend on port or arrival order. 1-3 phases per case make every prior port state occur. Clock classes include 0, 1 and 254.",
        "refbmca is a second reading of the same standard by the same engineer (independence is structural: no shared code, pinned against the figures' literal cases). Inputs for which the IEEE comparison itself is not a total order (error-1/error-2 results, one grandmaster identity with inconsistent attributes) are counted as ambiguous and not judged. A mismatch must persist over two further announce/BMCA rounds (transient foreign-master bookkeeping belongs to C06).",
        "DESIGN.md section 4 C05",
    ),
    "C06": (
        "exploration",
        "offline history checker over recorded Announce receipts and per-BMCA snapshots of a real port; single-master presence patterns over 16 intervals x 4 BMCA phases enumerated (all 2^16 in thorough), multi-master/hostile variants sampled",
        "Scripted masters announce according to presence patterns (duplicated, re-ordered, stale and wrap-straddling sequence ids, stepsRemoved 254/255/256, own-identity senders, 8 and 9 concurrent masters, clockClass 248 and 6 instances). After every BMCA the port state and parent are recorded; the checker demands >= 2 receipts with true age < 4 intervals for any selected/passivating master, never stepsRemoved >= 255 or own identity, expiry of silent masters within 5 intervals and uninterrupted selection of a steadily announcing best master. A sibling port of the own instance announcing every interval; masters that switch to stepsRemoved >= 255 later.",
        "Receipts are counted, not distinct sequence ids (the repository's own test_master_registration fixes that reading); the stricter reading is reported as an observation. With 9 masters only the necessary-condition clauses are judged.",
        "DESIGN.md section 4 C06",
    ),
    "C07": (
        "exploration",
        "two-run non-interference monitor (no model): one concrete host history is executed twice on fresh real instances, once with inserted noise frames; returned actions (frame bytes, timer durations - which also exposes RNG consumption), port states, data sets, clock calls and filter measurements of every corresponding base call are compared, and each noise call must return nothing and change nothing",
        "Base histories (~200 calls) come from the stateful hostile driver in the consistent timestamp regime, so every reachable port state occurs; noise frames are derived from valid frames of the same history by exactly one disqualifying edit: domain, sdoId, versionPTP, truncation, bad messageLength, malformed TLV, Announce from outside the acceptable master list, Announce bearing the port's own identity, Sync/Follow_Up/Delay_Resp from a non-parent, Delay_Resp for another requester - inserted right before the frame they were derived from or a few calls later. Scripted history 'parent moves to another port of the same clock'; noise bearing the own clock identity with another port number on ports whose acceptable master list lacks it.",
        "Only the frame classes the property lists are used as noise (Pdelay_Req, Announces of other ports of the own instance etc. legitimately have effects). Observation is through public getters, returned actions, the recording clock and the recording filter.",
        "DESIGN.md section 4 C07",
    ),
    "C08": (
        "exploration",
        "online invariant monitor at every host-call boundary (port states, role of the emitting port for every decoded frame, clock commands attributed per port by the recording clock) over hostile random histories and a breadth-first, state-deduplicating exploration of a host-call alphabet executed on the real code",
        "After every host call: at most one Slave port, no Slave master-only port, no Master port on an instance slave-only since creation, none after set_slave_only(true) + one completed BMCA; Announce/Sync/Follow_Up/Delay_Resp only from ports that were Master when the call started, E2E Delay_Req only from the Slave port; clock commands only from the port that is Slave (one final set_frequency when it leaves Slave). BFS depth 5 (quick) / 7 (thorough) over 6 configurations, plus 250-call random histories over random configurations.",
        "Invariants are evaluated between host calls (inside PtpInstance::bmca two ports are transiently Slave, which no host can observe). BFS de-duplicates on a digest of the observable state, so it is an exploration, not an exhaustive search of the internal state space.",
        "DESIGN.md section 4 C08",
    ),
    "C09": (
        "exploration",
        "runtime history oracle over a recording Filter: scripted exchanges with unique timestamps/corrections; each Measurement must equal the IEEE expression over ONE delivered exchange in exact i128 arithmetic; all Sync/Follow_Up sequences up to a length bound enumerated, delay/noise interleavings sampled; checked + release builds",
        "A real slave port (E2E) over a recording filter is fed every sequence (length <= 6 quick, 7 thorough) over the six messages of three Sync exchanges (two-step, one-step, mixed; sequence ids around wrap), plus seeded interleavings with Delay_Req timers, transmit timestamps, matching/late/duplicate/foreign Delay_Resp and copies from a non-parent master. Because every exchange has unique values, a measurement mixing two exchanges or using a foreign message cannot equal any legal value. Stray Follow_Ups around one-step Syncs; parent-port-switch and two-slave-phases scenarios. The first delay measurement of a slave phase must not use a Sync of an earlier phase.",
        "Trusts refcodec, the recording filter and the harness' exact arithmetic; delay = (sync - delay)/2 is accepted within 1 unit of 2^-32 ns (fixed-point division).",
        "DESIGN.md section 4 C09",
    ),
    "C14": (
        "exploration",
        "runtime history oracle over a recording Filter + port-state monitor: scripted Pdelay exchanges from two responders with unique timestamps; enumeration of all event sequences up to a bound over two consecutive requests in each start state; faulty-state role and clock clauses observed on every call; checked + release builds",
        "A real P2P port in Listening/Master/Slave/Passive (and, once faulted, Faulty) is driven through every sequence (bounded) of {transmit timestamp, Resp_A, FU_A, Resp_B, FU_B} after each of two requests, one-/two-step per responder, then seeded scripts with old-request and other-requester responses, timers and BMCA runs. Each peer delay must equal ((t4-t1)-(t3-t2))/2 of one (request, responder); a second responder identity for the current request must leave the port Faulty; a Faulty port must stay silent and must leave Faulty exactly on an exchange answered by one responder. Late Sync transmit timestamps after the fault; slave-only instances.",
        "The two-responder clause is judged at the moment the second identity shows up for the request the port is currently measuring (responses to superseded requests are only observed). Trusts refcodec and the recording filter.",
        "DESIGN.md section 4 C14",
    ),
    "C10": (
        "exploration",
        "runtime monitor on emitted frames: every PortAction frame decoded by the independent codec and by the library's own parser; exact integer arithmetic on the supplied 80-bit timestamps; per-type sequence registers over 70 000 emissions; checked + release builds",
        "Real master (and slave/P2P) ports are driven through seeded histories of Sync/transmit-timestamp, Delay_Req, Pdelay_Req, Announce and delay-request-timer events with lattice and random timestamps, correction fields and request headers. Each emitted frame is decoded and compared with what the property prescribes (Follow_Up/Delay_Resp exact to 2^-16 ns, Pdelay times to the ns, echoed identities and sequence ids, consecutive sequence numbers incl. wrap, identity/domain/sdoId, size, single event send). Non-zero delay asymmetry on master ports; P2P ports driven faulty must still answer Pdelay_Req. set_slave_only toggled between a Sync and its transmit timestamp: the Follow_Up is still owed.",
        "Trusts refcodec and the harness' i128 arithmetic. When the sum of request correction and sub-ns part does not fit the 64-bit field only 'no wrap-around, no panic' is demanded.",
        "DESIGN.md section 4 C10",
    ),
    "C11": (
        "exploration",
        "runtime shadow-state monitor: the expected hierarchy view is maintained by the monitor from what it injected (last Announce of the current parent, own attributes, BMCA completions) and compared field by field with the reference decoding of every Announce a master port emits",
        "Boundary clocks with 2-3 real ports: a scripted parent whose Announce contents are redrawn at every step (all 2^6 time-properties flag combinations, utc offsets incl. i16 extremes, every timeSource octet, quality lattice, stepsRemoved 0..254), a better master taking over, loss of all masters (grandmaster take-over with the instance's own configured time properties) and local quality changes followed by a BMCA; after every step each master port's next Announce is decoded and compared. masterOnly last port with a better master announcing there; a copy of a parent Announce with other contents on another port.",
        "Expected values never come from statime's data sets. Reserved clockAccuracy values and Announces with both leap flags set are not judged field-exactly (no single value represents them). Between a BMCA that selects a new parent and its first Announce the expected contents are those of the Announce the BMCA selected.",
        "DESIGN.md section 4 C11",
    ),
    "C12": (
        "fault_enumeration",
        "bounded-progress runtime monitor in virtual time over the discrete-event host model: the set of armed timers is explicit state of the model, so 'waiting on a timer nobody armed' is directly observable; fault scripts (muted peers, cut links, lost transmit timestamps, slave-only toggles, peer-delay double responders and recovery) precede each continuation",
        "A real instance in a simulated segment with 1-3 real peers is driven through a random fault script and then continued with (a) total silence: every port of an instance that may be master must be Master within (2*receiptTimeout+6) announce intervals and then emit Announce and Sync with gaps <= 1.5 intervals for 50 intervals, or (b) one steadily announcing better master: the port must be its slave within (2*receiptTimeout+8) intervals and issue delay requests with gaps <= 2 intervals. A dedicated family walks a P2P port through slave -> master -> peer-delay fault -> recovery. Verdicts use virtual time only. Announce intervals 2^-3..2^1 mixed on one instance; parents announcing stepsRemoved 254.",
        "'Indefinitely' is checked for 50 intervals past the bound. Ports that are Faulty at the end of the silence window are exempt (as the property says), but a Faulty port first gets a recovery window with a single responder. One open known finding (recovery from Faulty arms no timer).",
        "DESIGN.md section 4 C12",
    ),
    "C13": (
        "exploration",
        "runtime assertions inside a recording Clock: every set_frequency/step_clock argument issued by KalmanFilter and BasicFilter (driven directly through the public Filter trait and through real ports) is checked for finiteness and the configured bounds; clock behaviours include failing calls and times behind/ahead of the filter; checked + release builds",
        "Adversarial measurement sequences (log-lattice offsets to +-1e9 s, equal and backward event times, zero-variance sets, alternating kinds, update() calls) are fed to the real filters under many servo configurations; the recording clock asserts |ppm| <= max_freq_offset, finite values, |step| >= step_threshold, and at most one bounded command on demobilize (also observed through a real port leaving the slave state). Peer delay exchanges and filter-update timers on never-slave and no-longer-slave P2P ports must leave the clock alone. The no-longer-slave state is reached by announce receipt timeout and by a two-responder fault.",
        "Trusts the recording clock; event times follow applied steps in the 'consistent' clock mode (as timestamps of a stepped clock do). 1e-9 relative slack on the frequency bound, 2 ns on the step threshold.",
        "DESIGN.md section 4 C13",
    ),
    "C17": (
        "exploration",
        "runtime lock monitor + race/deadlock interpreter: a PtpInstanceStateMutex implementation over the real std::sync::RwLock keeps a thread-local acquisition depth per lock and reports any nested acquisition (schedule independent, active in every workload of every check); version-tagged writes with concurrent observer threads detect torn snapshots; the same threaded program runs under Miri (-Zmiri-many-seeds, one schedule per seed; deadlock, data-race and UB detection) in the thorough tier",
        "(a) hostile single-threaded histories in both timestamp regimes over the monitoring mutex, every acquisition counted; (b)+(c) one thread per port of a 2-3-port instance, a BMCA thread doing the daemon's stop-the-world hand-over through channels, 2-4 observer threads: the slave-side port receives parent Announces in which every field of parentDS / timePropertiesDS is a function of one counter, with pauses that make the BMCA flip between the parent's and the instance's own values; observers decode the counter from each field of every snapshot. Thorough adds 16 Miri schedules of the down-scaled program. Announces emitted by master-port threads during concurrent parent updates must stem from one update; states observable at every write-lock release are checked per data set.",
        "Thread interleavings are sampled (native stress with yields between host calls + Miri seeds), not enumerated; the nesting clause is decided deterministically per executed call path. A getter is one acquisition, so a snapshot is per data set. A watchdog expiry without a witness is inconclusive.",
        "DESIGN.md section 4 C17",
    ),
    "C18": (
        "exploration",
        "runtime reference-model monitor: exact integer affine clock model compared with OverlayClock/SharedClock after every operation of enumerated and seeded random adjustment sequences; checked + release builds",
        "Sequences of set_frequency/step_clock/advance/convert are executed on the real OverlayClock over a harness-controlled underlying clock; continuity, exact step size, rate, returned times and conversions are compared with an independent affine model after every call. All operation-kind triples over lattice values are enumerated, longer sequences are sampled. SharedClock<OverlayClock<LinuxClock>> over read-only CLOCK_TAI: port_timestamp_to_time through every wrapper equals the overlay's own mapping. An underlying clock that advances on every read exposes double reads.",
        "Trusts the harness' integer affine reference; tolerance 2^-30 ns per comparison plus the I96F32 quantisation of arbitrary ppm values. Conversions of underlying timestamps older than the latest adjustment are not demanded.",
        "DESIGN.md section 4 C18",
    ),
    "C15": (
        "exploration",
        "runtime FIFO-shadow monitor over real ports sharing the daemon's real TlvForwarder (one duplicate() per port) or a contract-honouring scripted provider: every TLV carries a unique tag, room accounting is recomputed independently, every emitted Announce is decoded by the reference codec and by the library's own parser; looping Announces are judged by before/after snapshots",
        "A boundary clock (one slave port, 1-3 master ports) receives Announces from its parent, another acceptable master and an unacceptable one with 0-6 TLVs of propagating and non-propagating types, value lengths every even size 0..1100, sizes equal to / just above / just below the remaining room, oversize-first-then-small, bursts of ~180 Announces beyond the forwarder capacity, PATH_TRACE with 0..200 entries incl. paths containing the own identity. Each emitted Announce must carry exactly the expected TLV suffix (FIFO, at most once, unaltered, only from the parent, only propagating types, within 1024 bytes, decodable), and the parent's path with the own identity appended. Daemon tier (daemon/dtier.py): the real two-port daemon between a scripted parent and a sniffer in network namespaces, once over UDP/IPv4 and once over layer-2 Ethernet transport; every propagating TLV of the parent (unique tags, five type codes) must leave the master port exactly once, unaltered and in order through main.rs' action loop and the shared TlvForwarder, TLVs of non-propagating types or of another (unselected) master never, every emitted Announce carries the parent's path plus the own identity, and Announces of the parent whose path contains the daemon's identity leave data sets and emitted Announces untouched. Senders include another port of the parent's clock; grandmaster by BMCA from the slave state must announce the own identity only. Looping Announces with stepsRemoved 254/255/256/65535.",
        "After forwarder overflow (lag) only order, uniqueness and integrity are demanded. The path length is constant within a case: a TLV that fitted when received but no longer fits because the parent's path grew meanwhile can still block a port's queue (not claimed; documented in DESIGN). A path too long to extend is expected to be omitted.",
        "DESIGN.md section 4 C15",
    ),
    "C16": (
        "exploration",
        "runtime differential monitor: exact 128-bit integer reference arithmetic on the public bit representation; wire conversions observed black-box through real master/slave ports decoded by an independent codec; checked + release builds",
        "Every Time/Duration/TimeInterval/log-interval operation executed by the real library is compared bit-for-bit with exact integer arithmetic: boundary lattices are enumerated completely, the rest of the operand space is sampled with seeded random values; holds on what was executed, not a proof over all 2^128 operands.",
        "Trusts the harness' i128/u128 reference arithmetic and refcodec's reading of Timestamp/correctionField; operations whose mathematical result is not representable (negative Time) are outside the exactness clause (judged by C03/C09).",
        "DESIGN.md section 4 C16",
    ),
}

CHECKS["C19"] = (
    "exploration",
    "black-box runtime monitor of the real statime-metrics-exporter binary (subprocess, built from /repo's current tree): the harness serves the observation socket exactly like the daemon's observer (one write of the JSON, then close) with states taken from live simulated instances through the daemon's getters, and an independent HTTP + OpenMetrics parser compares every served metric with the state under the meaning of the metric's own HELP/UNIT/name suffix",
    "Instance states (grandmaster, slave with servo estimates, 1-8-port boundary clocks, P2P ports with measured link delay, Faulty/Passive/Listening/Master/Slave ports, path lists up to 118 entries, every time-properties combination, synthetic offsets/delays to +-10 s and beyond 64 bits of 2^-32 ns) make the JSON hop (serialise, exporter-side parse, re-serialise byte-identically) and the HTTP hop (status, Content-Length = body length, well-formed exposition text ending in # EOF, every expected metric present with the expected value; booleans true = 1, _nanoseconds in nanoseconds, port state by its IEEE enumeration value). Daemon tier (daemon/dtier.py): three real daemons on a veth segment; in the converged state each daemon's observation-socket JSON (observer.rs, assembled in main.rs) is compared field by field with what the wire shows (the grandmaster's sniffed Announce: identity, priorities, quality, flags, UTC offset, path trace, announcing port; own configured identity/priority1; stepsRemoved), and the real exporter pointed at each live socket must serve 200 with the daemon's values. Aborted scrapes (RST while the exporter waits for a slowed observation socket) before judged ones; the mean link delay of a P2P port is held against the measured delay across role changes. currentDS.stepsRemoved is read while no port is slave (between an announce receipt timeout and the next BMCA run, and on a slave-only instance that lost its parent) and held against what the master port announces.",
    "The table metric -> state field is derived from the help texts, not from format.rs. States whose JSON exceeds the exporter's single 16 KiB read (80 ports) are only observed (answered with 500), as the property's quantifier does not name them. Getter-vs-truth equality is C05/C11's business.",
    "DESIGN.md section 4 C19",
)
CHECKS["C20"] = (
    "fault_enumeration",
    "black-box fault-script monitor of the real exporter subprocess: scripted hostile client behaviours x observation-socket behaviours followed by a well-formed probe; a failure needs a witness measured from outside (exit status, CPU time from /proc/<pid>/stat, or idle hang after an extended deadline)",
    "Every single client behaviour (well-formed GET, close after 0 / partial / header-less bytes, 2048 and 4096 bytes without terminator, non-GET verb, split writes, TCP reset via SO_LINGER 0 before and after the request, close before reading the response) x every observation behaviour (valid, truncated, invalid JSON, refused, accept-then-close) is enumerated; sequences of length 2-4 are seeded samples (all ordered pairs in thorough). The probe must get a complete HTTP response with matching Content-Length: 200 when data can be served, an error status when not. Split clients cut inside the CRLFCRLF terminator and must be answered while they wait; hostile non-GET method tokens.",
    "A client that stays connected and silent is outside the statement. Watchdog expiry without a witness is inconclusive. The exporter is restarted after a wedging sequence so that later sequences are judged independently.",
    "DESIGN.md section 4 C20",
)

ALL = [f"C{n:02d}" for n in range(1, 21)]

NOT_BUILT_REASON = "check not yet built in this snapshot (runtime-monitoring design exists in DESIGN.md section 4; construction in progress)"


# workloads added in the seeded-change rounds 7 and 8 (appended to the coverage texts)
EXTRA = {
    "C07": " Malformed frames include 1-3 stray octets behind the last TLV that messageLength covers.",
    "C03": " Master, slave and P2P ports driven through more than 66000 timer expirations of each kind (every originated sequence id wraps).",
    "C01": " Full meshes (K4/K5) of boundary clocks with ports in random order; 40 % of the simulated networks run at 2^-1 / 2^-2 s announce intervals. Successions of 9-12 grandmasters on one segment (the resident clock must find each). For full meshes the structure after a fault is judged at the (16+4n)-interval bound and, where stepsRemoved is still counting up (observed despite the path-trace option), again 1200 intervals later; both are counted in the evidence. Quality-change faults also promote a single-port clock into clockClass 6 / 7 / 127 at run time (it becomes grandmaster or must leave the slave state and stay passive).",
    "C02": " 20 % of the runs without a second master make the slave a boundary clock whose second port (P2P) was slave of a worse clock first and keeps measuring its link delay while port 1 is slave of the master. All instances of a run share a domainNumber from {0, 1, 24, 127, 255}. 45 % of the runs use a non-default KalmanConfiguration::steer_time (0.5, 0.75, 1.5, 3.25 s).",
    "C04": " Messages longer than 1024 octets of every type with a TLV boundary at and around octet 1024 followed by further TLVs, complete and cut short. The versionPTP pre-filter in front of the decoder is called on every input (totality); every 0/1/2-octet buffer is enumerated.",
    "C05": " Masters announcing only every 2nd / 3rd interval (two Announces still inside the four-interval window at the deciding run). A P2P port may be disabled by a peer-delay fault right before the deciding run (excluded from the election, its decision still carries the data-set update).",
    "C06": " The port may be disabled by a peer-delay fault for a span of the history (records keep ageing); a second port of a master's clock announces sparsely (records are per port identity). Bursts of 3-8 Announces per announcement, then silence.",
    "C09": " Transmit timestamps of Syncs sent while the port was master are reported after it became slave, with a Delay_Req of the same sequence id outstanding. Half of the foreign copies of Sync / Follow_Up / Delay_Resp come from the parent's own port identity in another domain / sdoId.",
    "C10": " 30 % of the request frames carry 1-46 octets after messageLength (padding or noise). 20 % of the Sync transmit timestamps are reported only after one to three later Syncs went out, in any order with theirs; each Sync must still get exactly its own Follow_Up.",
    "C11": " A slave-only instance that lost its parent and is then made master-capable: the first Announce of each port must carry the own data. A quarter of the cases have PTP 2.0 (minorVersionPTP 0) ports.",
    "C12": " Peers announcing PATH_TRACE TLVs of 0..121 entries; a panic inside a timer call the host made as requested counts as a stuck port; the best master may be attached to both ports of the node (passive port on a network that falls silent). Boundary clock with a persistently faulty P2P port and a healthy sibling that must become slave.",
    "C14": " Pdelay responses / follow-ups addressed to another port of the own clock with the sequence id of the running exchange; non-zero delay asymmetry on a third of the cases; Announces from a lower-numbered port of the own clock on healthy and faulty ports.",
    "C16": " Interval::seconds() bit-exact for every i8.",
    "C17": " A quarter of the write-release scenarios run slave-only, the tagged parent announces from port numbers 1 / 0 / 65535, and a released state whose parentDS names the instance itself must carry stepsRemoved 0 and the own time properties. Run-time clock quality changes (classes 6, 7, 127, 128, 0) judged at their own write release. With path trace on, every 11th step is a parent Announce whose PATH_TRACE names the instance: it is discarded as a whole, no data set may differ after it.",
    "C18": " 15 % of the sequences contain 2-60 consecutive advances (up to a week without an adjustment).",
    "C19": " Mixed E2E / P2P ports in every order; the daemon's own observer task (statime_linux::observer::spawn on a tokio runtime) must serve the state published last before each connection, with an uptime that does not predate it.",
    "C20": " Observation peers that keep the connection open after writing the state, and complete states with negative / huge uptime values. Non-GET requests announcing a body that never arrives (orderly close). The exporter is also started before the observation socket exists (no file / stale file): it must come up, answer 5xx, and serve 200 once the socket appears.",
}

def main():
    checks = []
    for pid in ALL:
        if pid not in CHECKS:
            continue
        cat, tech, text, note, ref = CHECKS[pid]
        text = text + EXTRA.get(pid, "")
        checks.append(
            dict(
                property_id=pid,
                quick_cmd=f"./check {pid} --tier quick",
                thorough_cmd=f"./check {pid} --tier thorough",
                evidence_file=f"/verif/evidence/{pid}.json",
                replay_cmd_template=f"./check {pid} --replay {{path}}",
                engine="vp-harness",
                level_claimed=dict(category=cat, text=text, design_ref=ref),
                level_note=note,
                technique=tech,
            )
        )
    manifest = dict(
        version=1,
        setup_cmd="cd /verif/harness && CARGO_NET_OFFLINE=true cargo build --offline --profile checked && CARGO_NET_OFFLINE=true cargo build --offline --release && CARGO_NET_OFFLINE=true cargo build --offline --manifest-path /repo/Cargo.toml -p statime-linux --bin statime-metrics-exporter --bin statime --target-dir /verif/target/repo",
        hooks=dict(
            guard="statime_verif",
            enable="none needed: every observation point is an existing public trait, getter, returned action or the existing `fuzz` cargo feature; a future hook would be compiled in with RUSTFLAGS='--cfg statime_verif'",
            baseline_off_cmd="cd /repo && cargo test --workspace --no-fail-fast --offline",
            source_commits=[],
            add_only=True,
        ),
        engines=[
            dict(
                name="vp-harness",
                path="/verif/harness",
                serves_properties=sorted(CHECKS.keys()),
                kind_free_text="Rust crate linking the real statime / statime-linux crates from /repo by path; workloads + runtime monitors (reference codec, reference BMCA, exact arithmetic, recording clock/filter, nested-lock-detecting mutex); built in a 'checked' profile (overflow-checks + debug-assertions = rustc's arithmetic/assertion sanitizer) and a 'release' profile; driven by /verif/check",
            )
        ],
        checks=checks,
        notes="Runtime monitoring only: every verdict comes from an oracle observing executions of the real code. See DESIGN.md. Known genuine defects that are recorded rather than repaired are listed in known_findings.jsonl.",
        not_applicable=[dict(property_id=p, reason=NOT_BUILT_REASON) for p in ALL if p not in CHECKS],
    )
    with open(os.path.join(ROOT, "MANIFEST.json"), "w") as f:
        json.dump(manifest, f, indent=1)
        f.write("\n")


if __name__ == "__main__":
    main()
