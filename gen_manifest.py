#!/usr/bin/env python3
"""Generates /verif/MANIFEST.json from the table below (kept in one place so it stays consistent)."""
import json
import os

ROOT = os.path.dirname(os.path.abspath(__file__))

# id -> (level category, technique, level text, level note, design ref)
CHECKS = {
    "C16": (
        "exploration",
        "runtime differential monitor: exact 128-bit integer reference arithmetic on the public bit representation; wire conversions observed black-box through real master/slave ports decoded by an independent codec; checked + release builds",
        "Every Time/Duration/TimeInterval/log-interval operation executed by the real library is compared bit-for-bit with exact integer arithmetic: boundary lattices are enumerated completely, the rest of the operand space is sampled with seeded random values; holds on what was executed, not a proof over all 2^128 operands.",
        "Trusts the harness' i128/u128 reference arithmetic and refcodec's reading of Timestamp/correctionField; operations whose mathematical result is not representable (negative Time) are outside the exactness clause (judged by C03/C09).",
        "DESIGN.md section 4 C16",
    ),
}

ALL = [f"C{n:02d}" for n in range(1, 21)]

NOT_BUILT_REASON = "check not yet built in this snapshot (runtime-monitoring design exists in DESIGN.md section 4; construction in progress)"


def main():
    checks = []
    for pid in ALL:
        if pid not in CHECKS:
            continue
        cat, tech, text, note, ref = CHECKS[pid]
        checks.append(
            dict(
                property_id=pid,
                quick_cmd=f"./check {pid} --tier quick",
                thorough_cmd=f"./check {pid} --tier thorough",
                evidence_file=f"/verif/evidence/{pid}.json",
                replay_cmd_template=f"./check {pid} --replay {{path}}",
                engine="vp-harness",
                level_claimed=dict(category=cat, text=text, design_ref=ref),
                level_note=note,
                technique=tech,
            )
        )
    manifest = dict(
        version=1,
        setup_cmd="cd /verif/harness && CARGO_NET_OFFLINE=true cargo build --offline --profile checked && CARGO_NET_OFFLINE=true cargo build --offline --release",
        hooks=dict(
            guard="statime_verif",
            enable="none needed: every observation point is an existing public trait, getter, returned action or the existing `fuzz` cargo feature; a future hook would be compiled in with RUSTFLAGS='--cfg statime_verif'",
            baseline_off_cmd="cd /repo && cargo test --workspace --no-fail-fast --offline",
            source_commits=[],
            add_only=True,
        ),
        engines=[
            dict(
                name="vp-harness",
                path="/verif/harness",
                serves_properties=sorted(CHECKS.keys()),
                kind_free_text="Rust crate linking the real statime / statime-linux crates from /repo by path; workloads + runtime monitors (reference codec, reference BMCA, exact arithmetic, recording clock/filter, nested-lock-detecting mutex); built in a 'checked' profile (overflow-checks + debug-assertions = rustc's arithmetic/assertion sanitizer) and a 'release' profile; driven by /verif/check",
            )
        ],
        checks=checks,
        notes="Runtime monitoring only: every verdict comes from an oracle observing executions of the real code. See DESIGN.md. Known genuine defects that are recorded rather than repaired are listed in known_findings.jsonl.",
        not_applicable=[dict(property_id=p, reason=NOT_BUILT_REASON) for p in ALL if p not in CHECKS],
    )
    with open(os.path.join(ROOT, "MANIFEST.json"), "w") as f:
        json.dump(manifest, f, indent=1)
        f.write("\n")


if __name__ == "__main__":
    main()
